#!/usr/bin/env python3
"""Regenerates /verif/MANIFEST.json from the table below (single source of truth for what is claimed)."""
import json, subprocess
props=[json.loads(l) for l in open('/verif/properties.jsonl')]
ids=[p['id'] for p in props]
# id -> (category, technique, level text, level note, design section)
C={
 'C01':('exploration','reference-codec differential monitor over generated messages',
        'Every generated message of all 27 kinds is encoded/decoded by the real codec and compared byte-for-byte and value-for-value with an independent reference codec (also after earlier outputs were kept across later calls and after the input buffer was overwritten); sampled (boundary-dense), not exhaustive.',
        'trusted: harness/refcodec as transcription of intro(5)/stat(5); only representable values generated'),
 'C02':('exploration','wire-capture monitor with reference-frame oracle',
        'WriteFcall is run on a capturing conn for (message, msize, ctx) triples dense around the message\'s own frame size; the captured bytes must be exactly the expected reference frame or nothing plus the exact overflow; write sequences with and without context deadlines run on a connection that honours write deadlines against a virtual clock.',
        'trusted: refcodec; capture conn never fails writes; sampled'),
 'C03':('exploration','scripted-stream monitor with per-frame isolated expectation + crash observation',
        'Streams of normal and hostile frames are read through the real channel under every chunking; each result is compared with the expectation derived from that frame alone and with the same frame on a fresh channel, and a delivered message must stay unchanged when the next frame is read; panics are observed as child crashes.',
        'trusted: refcodec; a length prefix of 0-3 is taken as a frame consisting of the prefix alone; sampled'),
 'C04':('exploration','structure-aware input mutation under crash, allocation and stability monitors',
        'Mutated encodings (every length field x hostile values, truncations, overwrites, random) are decoded in child processes with a panic monitor, an exact TotalAlloc meter against 256KiB+64B/byte and the decode-encode-decode stability equation; DecodeDir size field swept exhaustively; long strings of invalid UTF-8, stats as large as their size field allows, and a long history of distinct owner names per process.',
        'trusted: allocation bound constants are an instantiation of "small constant plus linear"; sampled except the 16-bit size sweep'),
 'C05':('exploration','online exactly-once / tag-distinctness monitor at a scripted fake server, race detector',
        'A real CSession client runs against a scripted raw-wire server: concurrent callers with unique ids, replies in PRNG permutations, Rerror replies, abandoned calls answered late, tag-wrap runs of 70k-200k calls with long-outstanding (partly abandoned) calls pinning tags, a depletion run with all 65535 tags outstanding, idle wraps (ordinary replies / error replies only) with read-side hiccups while tag 0 is outstanding, and calls issued with an already ended context while others are pending; the monitor checks tag distinctness among requests still awaiting a reply, NOTAG never used, every call returning its own id, completion at quiescence, plus race reports in the transport.',
        'trusted: fake server as judge of which tags await a reply; unique ids in requests and replies; refcodec'),
 'C06':('exploration','scripted-handler conservation monitor over the wire log (exactly-once per (tag, epoch)), race detector',
        'Scripts of requests, duplicates, bursts and PRNG-ordered completions against the real ServeConn with a gate-controlled Handler; after each stimulus the harness waits for quiescence and checks handler invocations and replies against a conservation monitor: one dispatch with the message sent, one reply with own tag and exactly the handler result or error text (results also of exactly the largest size that fits msize), duplicates refused without dispatch (also while the server writer is busy); messages held by parked handlers are re-compared when released; requests of exactly msize.',
        'trusted: refcodec for wire parsing; quiescence from goroutine states; replies kept within msize'),
 'C07':('exploration','gate-script ordering monitor over the wire log, repeated per random server-side choice, race detector',
        'Eleven flush scenarios (cancel honoured/ignored, late completion before/after tag reuse, completion racing the flush in both orders, unknown/own/double flush, immediate reuse, request+flush arriving at a stalled server, flush processed while the writer is busy followed by hang-up or drain) over eleven request kinds, with up to 133 requests outstanding and with the tag reused after 1..65536 other requests, repeated many times; the monitor checks ctx cancellation, exactly one reply per Tflush, silence of the flushed request after the flush reply and that a reused tag is answered with the new request own uid.',
        'trusted: unique ids in results identify crossed replies; the internal completed-vs-cancelled choice of the server is covered by repetition only'),
 'C08':('exploration','lock-step reference-model monitor (fid-table model) with FS-call log, fid-table hook and quiescence hang detector',
        'Random and systematically enumerated call sequences run on the real SFileSys over an instrumented file system; after every call the outcome, the exact FS calls and the whole fid table (via the verif hook) are compared with a sequential reference model; unreturned calls at quiescence are hangs; a family of queued pairs (a request arriving on a fid while another is still inside the file system) runs under the release/overlap monitors.',
        'trusted: harness/fsx model (DESIGN App. A) incl. its documented relations; instrumented FS deterministic; hook p9p.VerifFidTable'),
 'C09':('exploration','recording-session differential monitor (arguments and results both ways) + concurrent unique-id cells under quiescence hang detection and the race detector',
        'A recording Session behind the real ServeConn/SSession and the real CSession in front: every method with boundary arguments and scripted results/errors is compared argument-by-argument and result-by-result modulo the documented wire limits; concurrent cells (2-64 callers x payload x connection buffering) check own-result delivery and completion, plus deadline-then-plain calls on deadline-honouring connections, fragmenting connections, 130-520 calls blocked inside S, and a tag wrap preceded by refused calls; the known flow-control deadlock is recognised by its five-goroutine signature only.',
        'trusted: ename rule for errors; documented clipping rules; KNOWN_FINDINGS entry C09:flow-control-deadlock (any other hang or any crossed/lost result is a violation)'),
 'C10':('exploration','frame-length monitor on the parsed wire in both directions + min-rule oracle over boundary-dense proposals/answers',
        'Raw clients propose every boundary msize/version to the real ServeConn and a fake server answers every boundary msize/version to the real CSession; after the handshake a battery of maximal reads/writes, exact-fit frames (also pipelined right behind the Tversion), long strings and oversize handler results (Rstat, Rread) runs while every frame on the wire is measured against the agreed minimum; refusals must not dispatch anything.',
        'trusted: refcodec wire parsing; server maximum = DefaultMSize'),
 'C11':('fault_enumeration','fault enumeration over a recorded run (inbound byte offsets, reply writes, reply counts x in-flight behaviours) with quiescence-based return detection, Stop counter, fid-table hook and release monitor, race detector',
        'Scripts with a completed prologue and an in-flight set parked inside FS calls are run against the real ServeConn+SSession+SFileSys on a fault-injecting connection; one fault per run at every enumerated index (read error/EOF at byte k, failing reply write j also with the write parked and work queued behind it, ctx cancel after e replies, ctx cancel while reply write j is stalled; read errors as plain and as permanent net.Error, with a read-count livelock detector; one script with outstanding auth fids, one with a flushed-then-reused tag and a late completion, one with a clunk pipelined behind the walk that reserves its fid; a failed reply write must end serving) x handlers that fail on cancel / succeed after cancel / already finished. Checks: in-flight ctxs cancelled, ServeConn returned at quiescence, Stop exactly once, fid table empty, every handed-out entry released exactly once, no crash.',
        'trusted: handlers wake on ctx.Done (proviso); virtual deadlines; exhaustive over fault indices of the tier scripts, server-internal goroutine schedule sampled'),
 'C12':('fault_enumeration','fault enumeration over a recorded run (every reply byte offset, every write, every reply count, every single call) + hostile-frame sampling, under crash, quiescence-hang and result monitors, race detector',
        'A real CSession client with 1-16 pending calls runs against a scripted peer on a fault-injecting connection: the inbound stream is failed at every byte offset (error/EOF), the peer closes after every reply count, every client write is failed, the session context is cancelled at every point, each call is cancelled alone; read errors come as plain errors and as permanent net.Errors (a spinning client is detected by counting its reads after the failure); calls that fail locally and a call made after the deadline of an earlier call has passed on a deadline-honouring connection (virtual clock) must leave the others alone; hostile frames (unknown/repeated/NOTAG tags, wrong types once or repeatedly, abnormal frames, malformed directory data, hostile handshake answers, garbage) are sampled; one long history (cancelled call, 66000 calls, late reply). Child-process crash observation, quiescence-based hang detection and per-call result checks decide.',
        'trusted: virtual deadlines (no timer-based verdicts); exhaustive over fault indices of the generated scenarios, hostile frames sampled'),
 'C13':('fault_enumeration','fault enumeration over FS-call indices and stop points with an online release monitor',
        'For each generated sequence every FS-call index is failed in two flavours, pairs are sampled and Stop is issued after every prefix, also through the shutdown of ServeConn itself with handlers still inside the file system; queued pairs behind releases and behind mere uses; Tauth on a bound fid; simultaneous binds of one fid; handle-level monitors (unique ids, released/consumed state) detect double release, use after release and leaks; the model says which handle each release must hit.',
        'trusted: fsx handles and model; exhaustive over (sequence, single fault, stop prefix), sampled over sequences and pairs'),
 'C18':('exploration','reference-model monitor (tree of byte arrays) over multi-session sequences, refcount validator hook, porcupine register checking, crash observation and the Go race detector',
        'One to three sessions on a fresh ramfs instance run interleaved operation sequences with extreme offsets; every result is compared with a reference tree model; after all fids are clunked the refcount validator (hook) must be clean and a fresh attach must see the model tree. Concurrent rounds with 2-8 sessions check per-file read/write histories with porcupine (register model), the validator, crashes and race reports in ramfs/.',
        'trusted: tree model (DESIGN App. B) incl. its relations; hooks VerifNewServer/VerifValidate'),
 'C19':('exploration','twin-directory differential monitor (ufs session vs direct OS calls) with snapshot, read-content and stat/listing oracles',
        'Operation sequences through the real ufs behind SFileSys on export A are mirrored step by step by the equivalent direct OS calls on twin B; after every step success/failure, bytes read, the full snapshots of A and B, and stat/listing through freshly walked fids versus Lstat/ReadDir of A are compared; up to three fids opened for reading stay open while later steps grow, truncate, rename or remove their file through other fids and are re-read after every step against a twin descriptor opened at the same moment.',
        'trusted: the mirroring table (create=OpenFile(O_CREATE|flags), DMDIR=Mkdir, wstat=Chmod/Rename/Truncate, remove=Remove); runs as root (no permission denials)'),
 'C20':('exploration','spy-session trace monitor plus server fid-table comparison',
        'Operation sequences on CFileSys over a spy Session in front of the real SFileSys: every operation must issue exactly the corresponding call on the entry own fid with normalised names, completed walks must yield usable entries, and the server fid table (hook) must always equal the fids of live entries and be empty at the end.',
        'trusted: spy accounting of entry->fid; reference path normaliser; hook'),
 'C14':('exploration','controlled-schedule stress with overlap monitor, deadlock (quiescence) detector, fid-lock hook, porcupine linearizability checking and the Go race detector',
        'Concurrent histories on the real SFileSys are produced by a gate inside the instrumented FS that releases one parked FS call at a time whenever every other goroutine is parked (PRNG choice), plus free-running histories; one history in four starts with crossing walks between two bound fids (a->b and b->a while a third thread is inside the file system on a); judged by the FS overlap/release monitors, a goroutine-state deadlock detector, the fid-table hook (no fid left locked), porcupine v1.3.0 against a non-deterministic sequential fid-table model, and race reports in sfilesys.go.',
        'trusted: path-based sequential model (props/c14.go) and its relations; interleavings inside the session own critical sections are left to the Go scheduler + race detector; porcupine timeouts are inconclusive'),
 'C15':('exploration','hostile-name workload under two observers: sentinel-tree snapshot/content monitor in-process, and a syscall-level path monitor (strace -f) on the server running in its own process',
        'Hostile names in every name-carrying field (walk, create, rename, attach tree name) from every depth, root removal/rename (also of an emptied export), special create bits and follow-up operations through every obtained fid are sent to the real ufs; in-process the sentinel tree next to the export must stay byte- and mtime-identical and nothing returned may be sentinel content; over a unix socket the same workload hits the server under strace and every path it passes to a file syscall after the serving marker must lie in the export root.',
        'trusted: lexical cleaning of traced paths; symlinks excluded by the statement; strace availability (otherwise the traced half is inconclusive and the in-process observers decide)'),
 'C16':('exploration','exhaustive bounded enumeration against an independent stepwise resolver',
        'All name lists of length 0-4 over an 11-symbol alphabet of special forms x 4 directories are enumerated at run time (exhaustive for that space) plus sampled longer lists; every helper result is compared with a 20-line reference resolver.',
        'trusted: reference resolver; directories canonical'),
 'C17':('exploration','reference-encoding monitor over generated listings, server and client halves',
        'Generated listings are read through Readdir, through the server session and through the client file-system layer over a served connection at forced msize values, with read buffers that are windows of larger canary-filled arenas and entries within a few bytes of what one reply can carry; the concatenation must equal the reference encoding and the client must obtain exactly the listing.',
        'trusted: refcodec; premise count >= largest entry; one real 1s timeout in ServeConn handled as inconclusive+retry'),
}
checks=[]
for i in ids:
    if i in C:
        cat,tech,text,note=C[i]
        checks.append({"property_id":i,"quick_cmd":"./run.sh %s quick"%i,"thorough_cmd":"./run.sh %s thorough"%i,
          "evidence_file":"/verif/evidence/%s.json"%i,
          "replay_cmd_template":"./run.sh %s replay {path}"%i,
          "engine":"harness","level_claimed":{"category":cat,"text":text,"design_ref":"DESIGN.md section 4, %s"%i},
          "level_note":note,"technique":tech})
na=[{"property_id":i,"reason":"no check registered"} for i in ids if i not in C]
hooks=subprocess.run(['git','-C','/repo','log','--format=%h','--grep=^verif-hook:'],capture_output=True,text=True).stdout.split()
m={"version":1,
 "setup_cmd":"cd /verif/harness && export GOFLAGS=-mod=mod GOPROXY=off GOSUMDB=off GOTOOLCHAIN=local && CGO_ENABLED=0 go build -tags verif -o /dev/null ./cmd/check && go build -race -tags verif -o /dev/null ./cmd/check",
 "hooks":{"guard":"verif","enable":"go build -tags verif (run.sh builds the harness, and through its module replace the repository, with -tags verif)",
   "baseline_off_cmd":"cd /repo && GOFLAGS=-mod=mod GOPROXY=off GOSUMDB=off GOTOOLCHAIN=local go test -vet=off -count=1 ./...",
   "source_commits":hooks,"add_only":True},
 "engines":[{"name":"harness","path":"/verif/harness","serves_properties":[c["property_id"] for c in checks],
   "kind_free_text":"Go module: child-process workers running the real library under generated/hostile/fault-injected workloads; monitors = reference codec, reference models, event-log checkers, quiescence hang detector, Go race detector"}],
 "checks":checks,
 "not_applicable":na,
 "notes":"Known findings: /verif/KNOWN_FINDINGS (text; 'known:' entries are reported as KNOWN-FINDING, 'fixed:' entries suppress nothing). Self-test against seeded changes: /verif/selftest.sh, /verif/seeded/, /verif/mutants/."}
json.dump(m,open('/verif/MANIFEST.json','w'),indent=1)
print(len(checks),"checks,",len(na),"not applicable")
