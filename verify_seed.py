#!/usr/bin/env python3
"""verify_seed.py <seed dir> <name> [check ...]
Independently confirms a seeded change (patch.diff + demonstration + meta.json) in a scratch
worktree of /repo HEAD (outside /repo and /verif), then runs the named checks against it
with selftest.sh, and stores everything under /verif/seeded/<name>/."""
import json, os, shutil, subprocess, sys, tempfile
seed, name = sys.argv[1], sys.argv[2]
checks = sys.argv[3:]
env = dict(os.environ, GOFLAGS='-mod=mod', GOPROXY='off', GOSUMDB='off', GOTOOLCHAIN='local')
meta = json.load(open(os.path.join(seed, 'meta.json')))
patch = os.path.join(seed, 'patch.diff')
wt = tempfile.mkdtemp(prefix='vs.', dir='/tmp'); os.rmdir(wt)
def run(cmd, cwd, timeout=600):
    p = subprocess.run(cmd, shell=True, cwd=cwd, env=env, capture_output=True, text=True, errors='replace', timeout=timeout)
    return p.returncode, (p.stdout + p.stderr)[-1500:]
res = {}
try:
    subprocess.check_call(['git', '-C', '/repo', 'worktree', 'add', '-q', '--detach', wt, 'HEAD'])
    rc, out = run(f'git apply --whitespace=nowarn {patch}', wt)
    res['applies_to_head'] = rc == 0
    if rc != 0:
        res['apply_output'] = out
    else:
        rc, out = run('go build ./...', wt); res['builds'] = rc == 0
        rc, out = run('go test -vet=off -count=1 ./...', wt); res['suite_passes_with_change'] = rc == 0
        if rc != 0: res['suite_output'] = out
        demo = meta.get('demo_file'); ddir = meta.get('demo_dir', '.') or '.'
        demos = [demo] if isinstance(demo, str) else list(demo)
        for d in demos:
            shutil.copy(os.path.join(seed, d), os.path.join(wt, ddir, os.path.basename(d)))
        cmd = meta['demo_cmd']
        rc, out = run(cmd, wt); res['demo_fails_with_change'] = rc != 0
        run(f'git apply -R --whitespace=nowarn {patch}', wt)
        rc, out = run(cmd, wt); res['demo_passes_without_change'] = rc == 0
        if rc != 0: res['demo_clean_output'] = out
finally:
    subprocess.call(['git', '-C', '/repo', 'worktree', 'remove', '--force', wt])
caught = {}
if res.get('applies_to_head'):
    for c in checks:
        p = subprocess.run(['/verif/selftest.sh', patch, c], capture_output=True, text=True, errors='replace')
        caught[c] = 'caught' if p.returncode == 0 else ('missed' if p.returncode == 1 else 'error')
        first = [l for l in p.stdout.splitlines() if l.strip().startswith('[')]
        if first: caught[c + '_witness'] = first[0].strip()[:300]
dst = os.path.join('/verif/seeded', name)
os.makedirs(dst, exist_ok=True)
for f in os.listdir(seed):
    if f not in ('PROPERTY.txt', 'PROMPT.txt'):
        s = os.path.join(seed, f)
        if os.path.isfile(s): shutil.copy(s, dst)
meta['confirmed_in_scratch_worktree'] = res
meta['checks_run'] = caught
meta['what_was_run'] = 'verify_seed.py: git worktree of /repo HEAD under /tmp; git apply; go build; go test ./...; demo with and without the change; selftest.sh <patch> <check> (quick tier)'
json.dump(meta, open(os.path.join(dst, 'meta.json'), 'w'), indent=1)
print(name, json.dumps(res), json.dumps({k: v for k, v in caught.items() if not k.endswith('_witness')}))
