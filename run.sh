#!/bin/sh
# Entry point of every quick_cmd / thorough_cmd:  run.sh <property> <quick|thorough>
# Rebuilds the harness (and with it the repository under test, through the module
# `replace`) from the current working tree of $VERIF_REPO (default /repo) with the
# `verif` build tag, then runs the property's workload under its monitors.
set -u
PROP="$1"; TIER="${2:-quick}"
REPLAY=""
if [ "$TIER" = "replay" ]; then
    # run.sh <prop> replay <replay.json>: re-run the tier and seed recorded in the witness file and
    # say whether a violation with the same signature shows up again (schedule-dependent
    # violations may need several attempts: the answer is information, not a verdict)
    REPLAY="$3"
    TIER=$(python3 -c "import json,sys; print(json.load(open(sys.argv[1]))['tier'])" "$REPLAY") || exit 2
    export VERIF_SEED=$(python3 -c "import json,sys; print(json.load(open(sys.argv[1]))['seed'])" "$REPLAY")
    export VERIF_OUT_DIR=$(mktemp -d /tmp/replay.XXXXXX)
fi
[ -n "${VERIF_TIER:-}" ] && [ "$#" -lt 2 ] && TIER="$VERIF_TIER"
VERIF_DIR="$(cd "$(dirname "$0")" && pwd)"
REPO="${VERIF_REPO:-/repo}"
export GOFLAGS=-mod=mod GOPROXY=off GOSUMDB=off GOTOOLCHAIN=local CGO_ENABLED=1
mkdir -p "$VERIF_DIR/.build" "$VERIF_DIR/.work"
SEED="${VERIF_SEED:-1}"
cd "$VERIF_DIR/harness" || exit 2
MODFLAG=""
if [ "$REPO" != "/repo" ]; then
    # build against another copy of the repository (mutant self-test)
    MF="$VERIF_DIR/.build/alt.$$.mod"
    sed "s#=> /repo#=> $REPO#" go.mod > "$MF"
    cp go.sum "$VERIF_DIR/.build/alt.$$.sum"
    MODFLAG="-modfile=$MF"
fi
BIN="$VERIF_DIR/.build/check.$$"
cleanup() { rm -f "$BIN" "$BIN-race" "$VERIF_DIR/.build/alt.$$.mod" "$VERIF_DIR/.build/alt.$$.sum"; }
trap cleanup EXIT INT TERM
# the plain build is pure Go (no libc): the traced ufs server of C15 then makes no file
# system calls of its own besides the Go runtime's start-up reads
if ! CGO_ENABLED=0 go build $MODFLAG -tags verif -o "$BIN" ./cmd/check 2> "$VERIF_DIR/.build/build.$$.log"; then
    echo "BUILD FAILED (property $PROP): the harness does not compile against $REPO" >&2
    cat "$VERIF_DIR/.build/build.$$.log" >&2; rm -f "$VERIF_DIR/.build/build.$$.log"
    exit 3
fi
rm -f "$VERIF_DIR/.build/build.$$.log"
RUNBIN="$BIN"
if [ "$("$BIN" -needs-race "$PROP")" = "yes" ]; then
    if ! go build $MODFLAG -race -tags verif -o "$BIN-race" ./cmd/check 2> "$VERIF_DIR/.build/build.$$.log"; then
        echo "RACE BUILD FAILED (property $PROP)" >&2; cat "$VERIF_DIR/.build/build.$$.log" >&2
        rm -f "$VERIF_DIR/.build/build.$$.log"; exit 3
    fi
    rm -f "$VERIF_DIR/.build/build.$$.log"
    RUNBIN="$BIN-race"
fi
"$RUNBIN" -prop "$PROP" -tier "$TIER" -seed "$SEED" -verif "$VERIF_DIR"
RC=$?
if [ -n "$REPLAY" ]; then
    if [ -f "$VERIF_OUT_DIR/replays/$(basename "$REPLAY")" ]; then
        echo "REPRODUCED: $(basename "$REPLAY") (same signature, tier $TIER, seed $SEED)"
    else
        echo "NOT REPRODUCED in this attempt: $(basename "$REPLAY") (tier $TIER, seed $SEED)"
    fi
    rm -rf "$VERIF_OUT_DIR"
fi
exit $RC
