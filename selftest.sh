#!/bin/sh
# selftest.sh <patch.diff> <property> [tier]  — apply a seeded change to a scratch copy of
# /repo (outside /repo and /verif), run the property's check against it, expect a VIOLATION.
# exit 0 = caught, 1 = missed, 2 = patch does not apply / build problem
PATCH="$(realpath "$1")"; PROP="$2"; TIER="${3:-quick}"
S=$(mktemp -d /tmp/mut.XXXXXX)
trap 'rm -rf "$S"' EXIT INT TERM
mkdir -p "$S/go-p9p"
(cd /repo && git ls-files -z | xargs -0 cp --parents -t "$S/go-p9p") || exit 2
if ! (cd "$S/go-p9p" && git init -q . 2>/dev/null; git -C "$S/go-p9p" apply --whitespace=nowarn "$PATCH"); then
    echo "PATCH DOES NOT APPLY: $PATCH"; exit 2
fi
OUT=$(VERIF_REPO="$S/go-p9p" VERIF_OUT_DIR="$S/out" /verif/run.sh "$PROP" "$TIER" 2>&1)
RC=$?
echo "$OUT" | grep -E "VIOLATION|KNOWN-FINDING|INCONCLUSIVE|BUILD FAILED|seed=" | head -5
echo "$OUT" | grep -E "^\s+\[" | head -3
if [ $RC -eq 1 ] && echo "$OUT" | grep -q "^VIOLATION property=$PROP"; then echo "CAUGHT $PROP $(basename $(dirname $PATCH))"; exit 0; fi
if [ $RC -eq 3 ]; then exit 2; fi
echo "MISSED $PROP $(basename $(dirname $PATCH)) (rc=$RC)"; exit 1
