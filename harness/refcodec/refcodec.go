// Package refcodec is an independent, deliberately boring implementation of the 27
// 9P2000 message layouts, transcribed from intro(5)/stat(5) of the Plan 9 manual. It
// shares no code, reflection or struct-order assumptions with the repository's
// encoding.go; only the plain data types (p9p.Fcall, p9p.MessageT…, p9p.Dir, p9p.Qid)
// are reused as value containers. It is the byte-exact oracle for the wire format and
// the frame builder/parser for every raw-wire harness.
package refcodec

import (
	"errors"
	"fmt"
	"time"

	p9p "github.com/frobnitzem/go-p9p"
)

// Message type numbers, literally from intro(5) / fcall.h.
const (
	Tversion = 100
	Rversion = 101
	Tauth    = 102
	Rauth    = 103
	Tattach  = 104
	Rattach  = 105
	Terror   = 106 // illegal
	Rerror   = 107
	Tflush   = 108
	Rflush   = 109
	Twalk    = 110
	Rwalk    = 111
	Topen    = 112
	Ropen    = 113
	Tcreate  = 114
	Rcreate  = 115
	Tread    = 116
	Rread    = 117
	Twrite   = 118
	Rwrite   = 119
	Tclunk   = 120
	Rclunk   = 121
	Tremove  = 122
	Rremove  = 123
	Tstat    = 124
	Rstat    = 125
	Twstat   = 126
	Rwstat   = 127
)

// AllTypes lists the 27 legal message types.
var AllTypes = []byte{100, 101, 102, 103, 104, 105, 107, 108, 109, 110, 111, 112, 113, 114, 115, 116, 117, 118, 119, 120, 121, 122, 123, 124, 125, 126, 127}

// LenField locates a length or count field inside an encoding (for structure-aware mutation).
type LenField struct {
	Off   int    // byte offset in the body (type byte at 0)
	Width int    // 2 or 4
	Kind  string // "string", "data", "nwname", "nwqid", "stat", "statouter"
	Val   uint32
}

type enc struct {
	b      []byte
	fields []LenField
}

func (e *enc) u8(v uint8)   { e.b = append(e.b, v) }
func (e *enc) u16(v uint16) { e.b = append(e.b, byte(v), byte(v>>8)) }
func (e *enc) u32(v uint32) { e.b = append(e.b, byte(v), byte(v>>8), byte(v>>16), byte(v>>24)) }
func (e *enc) u64(v uint64) {
	e.u32(uint32(v))
	e.u32(uint32(v >> 32))
}
func (e *enc) str(s string) error {
	if len(s) > 0xFFFF {
		return errors.New("string longer than 65535 bytes is not representable")
	}
	e.fields = append(e.fields, LenField{len(e.b), 2, "string", uint32(len(s))})
	e.u16(uint16(len(s)))
	e.b = append(e.b, s...)
	return nil
}
func (e *enc) qid(q p9p.Qid) {
	e.u8(uint8(q.Type))
	e.u32(q.Version)
	e.u64(q.Path)
}
func (e *enc) data(d []byte) {
	e.fields = append(e.fields, LenField{len(e.b), 4, "data", uint32(len(d))})
	e.u32(uint32(len(d)))
	e.b = append(e.b, d...)
}

// stat encodes size[2] followed by the stat fields; size counts what follows it.
func (e *enc) stat(d p9p.Dir) error {
	n := 2 + 4 + 13 + 4 + 4 + 4 + 8 + 2 + len(d.Name) + 2 + len(d.UID) + 2 + len(d.GID) + 2 + len(d.MUID)
	if n > 0xFFFF {
		return errors.New("stat longer than 65535 bytes is not representable")
	}
	e.fields = append(e.fields, LenField{len(e.b), 2, "stat", uint32(n)})
	e.u16(uint16(n))
	e.u16(d.Type)
	e.u32(d.Dev)
	e.qid(d.Qid)
	e.u32(d.Mode)
	e.u32(uint32(d.AccessTime.Unix()))
	e.u32(uint32(d.ModTime.Unix()))
	e.u64(d.Length)
	for _, s := range []string{d.Name, d.UID, d.GID, d.MUID} {
		if err := e.str(s); err != nil {
			return err
		}
	}
	return nil
}

// StatSize is the encoded size of a stat record including its own size[2].
func StatSize(d p9p.Dir) int {
	return 2 + 2 + 4 + 13 + 4 + 4 + 4 + 8 + 2 + len(d.Name) + 2 + len(d.UID) + 2 + len(d.GID) + 2 + len(d.MUID)
}

// EncodeStat encodes one stat record as it appears in directory reads.
func EncodeStat(d p9p.Dir) ([]byte, error) {
	var e enc
	if err := e.stat(d); err != nil {
		return nil, err
	}
	return e.b, nil
}

// Encode returns type[1] tag[2] fields… (no size[4] prefix), as Codec.Marshal does.
func Encode(fc *p9p.Fcall) ([]byte, error) {
	b, _, err := EncodeMap(fc)
	return b, err
}

// Frame returns the complete wire frame size[4] type[1] tag[2] fields….
func Frame(fc *p9p.Fcall) ([]byte, error) {
	b, err := Encode(fc)
	if err != nil {
		return nil, err
	}
	n := uint32(len(b) + 4)
	return append([]byte{byte(n), byte(n >> 8), byte(n >> 16), byte(n >> 24)}, b...), nil
}

func MustFrame(fc *p9p.Fcall) []byte {
	b, err := Frame(fc)
	if err != nil {
		panic(err)
	}
	return b
}

// EncodeMap also reports where the length/count fields are.
func EncodeMap(fc *p9p.Fcall) ([]byte, []LenField, error) {
	var e enc
	typ, err := typeOf(fc.Message)
	if err != nil {
		return nil, nil, err
	}
	e.u8(typ)
	e.u16(uint16(fc.Tag))
	switch m := fc.Message.(type) {
	case p9p.MessageTversion:
		e.u32(m.MSize)
		err = e.str(m.Version)
	case p9p.MessageRversion:
		e.u32(m.MSize)
		err = e.str(m.Version)
	case p9p.MessageTauth:
		e.u32(uint32(m.Afid))
		if err = e.str(m.Uname); err == nil {
			err = e.str(m.Aname)
		}
	case p9p.MessageRauth:
		e.qid(m.Qid)
	case p9p.MessageTattach:
		e.u32(uint32(m.Fid))
		e.u32(uint32(m.Afid))
		if err = e.str(m.Uname); err == nil {
			err = e.str(m.Aname)
		}
	case p9p.MessageRattach:
		e.qid(m.Qid)
	case p9p.MessageRerror:
		err = e.str(m.Ename)
	case p9p.MessageTflush:
		e.u16(uint16(m.Oldtag))
	case p9p.MessageRflush:
	case p9p.MessageTwalk:
		e.u32(uint32(m.Fid))
		e.u32(uint32(m.Newfid))
		if len(m.Wnames) > 0xFFFF {
			return nil, nil, errors.New("too many names")
		}
		e.fields = append(e.fields, LenField{len(e.b), 2, "nwname", uint32(len(m.Wnames))})
		e.u16(uint16(len(m.Wnames)))
		for _, s := range m.Wnames {
			if err = e.str(s); err != nil {
				break
			}
		}
	case p9p.MessageRwalk:
		if len(m.Qids) > 0xFFFF {
			return nil, nil, errors.New("too many qids")
		}
		e.fields = append(e.fields, LenField{len(e.b), 2, "nwqid", uint32(len(m.Qids))})
		e.u16(uint16(len(m.Qids)))
		for _, q := range m.Qids {
			e.qid(q)
		}
	case p9p.MessageTopen:
		e.u32(uint32(m.Fid))
		e.u8(uint8(m.Mode))
	case p9p.MessageRopen:
		e.qid(m.Qid)
		e.u32(m.IOUnit)
	case p9p.MessageTcreate:
		e.u32(uint32(m.Fid))
		if err = e.str(m.Name); err == nil {
			e.u32(m.Perm)
			e.u8(uint8(m.Mode))
		}
	case p9p.MessageRcreate:
		e.qid(m.Qid)
		e.u32(m.IOUnit)
	case p9p.MessageTread:
		e.u32(uint32(m.Fid))
		e.u64(m.Offset)
		e.u32(m.Count)
	case p9p.MessageRread:
		e.data(m.Data)
	case p9p.MessageTwrite:
		e.u32(uint32(m.Fid))
		e.u64(m.Offset)
		e.data(m.Data)
	case p9p.MessageRwrite:
		e.u32(m.Count)
	case p9p.MessageTclunk:
		e.u32(uint32(m.Fid))
	case p9p.MessageRclunk:
	case p9p.MessageTremove:
		e.u32(uint32(m.Fid))
	case p9p.MessageRremove:
	case p9p.MessageTstat:
		e.u32(uint32(m.Fid))
	case p9p.MessageRstat:
		n := StatSize(m.Stat)
		if n > 0xFFFF {
			return nil, nil, errors.New("stat too long")
		}
		e.fields = append(e.fields, LenField{len(e.b), 2, "statouter", uint32(n)})
		e.u16(uint16(n))
		err = e.stat(m.Stat)
	case p9p.MessageTwstat:
		e.u32(uint32(m.Fid))
		n := StatSize(m.Stat)
		if n > 0xFFFF {
			return nil, nil, errors.New("stat too long")
		}
		e.fields = append(e.fields, LenField{len(e.b), 2, "statouter", uint32(n)})
		e.u16(uint16(n))
		err = e.stat(m.Stat)
	case p9p.MessageRwstat:
	default:
		return nil, nil, fmt.Errorf("refcodec: unsupported message %T", fc.Message)
	}
	if err != nil {
		return nil, nil, err
	}
	return e.b, e.fields, nil
}

// TypeOf is the wire type byte of a message value according to the manual's numbering
// (independent of the library's own Type() methods).
func TypeOf(m p9p.Message) (uint8, error) { return typeOf(m) }

func typeOf(m p9p.Message) (uint8, error) {
	switch m.(type) {
	case p9p.MessageTversion:
		return Tversion, nil
	case p9p.MessageRversion:
		return Rversion, nil
	case p9p.MessageTauth:
		return Tauth, nil
	case p9p.MessageRauth:
		return Rauth, nil
	case p9p.MessageTattach:
		return Tattach, nil
	case p9p.MessageRattach:
		return Rattach, nil
	case p9p.MessageRerror:
		return Rerror, nil
	case p9p.MessageTflush:
		return Tflush, nil
	case p9p.MessageRflush:
		return Rflush, nil
	case p9p.MessageTwalk:
		return Twalk, nil
	case p9p.MessageRwalk:
		return Rwalk, nil
	case p9p.MessageTopen:
		return Topen, nil
	case p9p.MessageRopen:
		return Ropen, nil
	case p9p.MessageTcreate:
		return Tcreate, nil
	case p9p.MessageRcreate:
		return Rcreate, nil
	case p9p.MessageTread:
		return Tread, nil
	case p9p.MessageRread:
		return Rread, nil
	case p9p.MessageTwrite:
		return Twrite, nil
	case p9p.MessageRwrite:
		return Rwrite, nil
	case p9p.MessageTclunk:
		return Tclunk, nil
	case p9p.MessageRclunk:
		return Rclunk, nil
	case p9p.MessageTremove:
		return Tremove, nil
	case p9p.MessageRremove:
		return Rremove, nil
	case p9p.MessageTstat:
		return Tstat, nil
	case p9p.MessageRstat:
		return Rstat, nil
	case p9p.MessageTwstat:
		return Twstat, nil
	case p9p.MessageRwstat:
		return Rwstat, nil
	}
	return 0, fmt.Errorf("refcodec: not a 9P2000 message: %T", m)
}

// ---------------------------------------------------------------- decoding

type dec struct {
	b   []byte
	off int
	err error
}

var ErrShort = errors.New("refcodec: message shorter than its fields require")

func (d *dec) need(n int) bool {
	if d.err != nil {
		return false
	}
	if n < 0 || len(d.b)-d.off < n {
		d.err = ErrShort
		return false
	}
	return true
}
func (d *dec) u8() uint8 {
	if !d.need(1) {
		return 0
	}
	v := d.b[d.off]
	d.off++
	return v
}
func (d *dec) u16() uint16 {
	if !d.need(2) {
		return 0
	}
	v := uint16(d.b[d.off]) | uint16(d.b[d.off+1])<<8
	d.off += 2
	return v
}
func (d *dec) u32() uint32 {
	if !d.need(4) {
		return 0
	}
	v := uint32(d.b[d.off]) | uint32(d.b[d.off+1])<<8 | uint32(d.b[d.off+2])<<16 | uint32(d.b[d.off+3])<<24
	d.off += 4
	return v
}
func (d *dec) u64() uint64 {
	lo := d.u32()
	hi := d.u32()
	return uint64(lo) | uint64(hi)<<32
}
func (d *dec) str() string {
	n := int(d.u16())
	if !d.need(n) {
		return ""
	}
	s := string(d.b[d.off : d.off+n])
	d.off += n
	return s
}
func (d *dec) qid() p9p.Qid {
	var q p9p.Qid
	q.Type = p9p.QType(d.u8())
	q.Version = d.u32()
	q.Path = d.u64()
	return q
}
func (d *dec) data() []byte {
	n := d.u32()
	if uint64(n) > uint64(len(d.b)) || !d.need(int(n)) {
		d.err = ErrShort
		return nil
	}
	v := append([]byte{}, d.b[d.off:d.off+int(n)]...)
	d.off += int(n)
	return v
}
func (d *dec) stat() p9p.Dir {
	var s p9p.Dir
	n := int(d.u16())
	if !d.need(n) {
		return s
	}
	end := d.off + n
	sub := &dec{b: d.b[:end], off: d.off}
	s.Type = sub.u16()
	s.Dev = sub.u32()
	s.Qid = sub.qid()
	s.Mode = sub.u32()
	s.AccessTime = time.Unix(int64(sub.u32()), 0).UTC()
	s.ModTime = time.Unix(int64(sub.u32()), 0).UTC()
	s.Length = sub.u64()
	s.Name = sub.str()
	s.UID = sub.str()
	s.GID = sub.str()
	s.MUID = sub.str()
	if sub.err != nil {
		d.err = sub.err
	} else if sub.off != end {
		d.err = errors.New("refcodec: stat size does not match its fields")
	}
	d.off = end
	return s
}

// DecodeStat decodes one stat record (with its size[2]) from b and returns the number
// of bytes consumed.
func DecodeStat(b []byte) (p9p.Dir, int, error) {
	d := &dec{b: b}
	s := d.stat()
	return s, d.off, d.err
}

// Decode parses type[1] tag[2] fields… strictly: every field must be present and no
// byte may be left over.
func Decode(b []byte) (*p9p.Fcall, error) {
	d := &dec{b: b}
	typ := d.u8()
	tag := p9p.Tag(d.u16())
	if d.err != nil {
		return nil, d.err
	}
	fc := &p9p.Fcall{Type: p9p.FcallType(typ), Tag: tag}
	switch typ {
	case Tversion:
		fc.Message = p9p.MessageTversion{MSize: d.u32(), Version: d.str()}
	case Rversion:
		fc.Message = p9p.MessageRversion{MSize: d.u32(), Version: d.str()}
	case Tauth:
		fc.Message = p9p.MessageTauth{Afid: p9p.Fid(d.u32()), Uname: d.str(), Aname: d.str()}
	case Rauth:
		fc.Message = p9p.MessageRauth{Qid: d.qid()}
	case Tattach:
		fc.Message = p9p.MessageTattach{Fid: p9p.Fid(d.u32()), Afid: p9p.Fid(d.u32()), Uname: d.str(), Aname: d.str()}
	case Rattach:
		fc.Message = p9p.MessageRattach{Qid: d.qid()}
	case Rerror:
		fc.Message = p9p.MessageRerror{Ename: d.str()}
	case Tflush:
		fc.Message = p9p.MessageTflush{Oldtag: p9p.Tag(d.u16())}
	case Rflush:
		fc.Message = p9p.MessageRflush{}
	case Twalk:
		m := p9p.MessageTwalk{Fid: p9p.Fid(d.u32()), Newfid: p9p.Fid(d.u32())}
		n := int(d.u16())
		if n*2 > len(b) {
			return nil, ErrShort
		}
		m.Wnames = make([]string, 0, n)
		for i := 0; i < n && d.err == nil; i++ {
			m.Wnames = append(m.Wnames, d.str())
		}
		fc.Message = m
	case Rwalk:
		m := p9p.MessageRwalk{}
		n := int(d.u16())
		if n*13 > len(b) {
			return nil, ErrShort
		}
		m.Qids = make([]p9p.Qid, 0, n)
		for i := 0; i < n && d.err == nil; i++ {
			m.Qids = append(m.Qids, d.qid())
		}
		fc.Message = m
	case Topen:
		fc.Message = p9p.MessageTopen{Fid: p9p.Fid(d.u32()), Mode: p9p.Flag(d.u8())}
	case Ropen:
		fc.Message = p9p.MessageRopen{Qid: d.qid(), IOUnit: d.u32()}
	case Tcreate:
		fc.Message = p9p.MessageTcreate{Fid: p9p.Fid(d.u32()), Name: d.str(), Perm: d.u32(), Mode: p9p.Flag(d.u8())}
	case Rcreate:
		fc.Message = p9p.MessageRcreate{Qid: d.qid(), IOUnit: d.u32()}
	case Tread:
		fc.Message = p9p.MessageTread{Fid: p9p.Fid(d.u32()), Offset: d.u64(), Count: d.u32()}
	case Rread:
		fc.Message = p9p.MessageRread{Data: d.data()}
	case Twrite:
		fc.Message = p9p.MessageTwrite{Fid: p9p.Fid(d.u32()), Offset: d.u64(), Data: d.data()}
	case Rwrite:
		fc.Message = p9p.MessageRwrite{Count: d.u32()}
	case Tclunk:
		fc.Message = p9p.MessageTclunk{Fid: p9p.Fid(d.u32())}
	case Rclunk:
		fc.Message = p9p.MessageRclunk{}
	case Tremove:
		fc.Message = p9p.MessageTremove{Fid: p9p.Fid(d.u32())}
	case Rremove:
		fc.Message = p9p.MessageRremove{}
	case Tstat:
		fc.Message = p9p.MessageTstat{Fid: p9p.Fid(d.u32())}
	case Rstat:
		outer := int(d.u16())
		start := d.off
		st := d.stat()
		if d.err == nil && d.off-start != outer {
			d.err = errors.New("refcodec: outer stat size does not match")
		}
		fc.Message = p9p.MessageRstat{Stat: st}
	case Twstat:
		fid := p9p.Fid(d.u32())
		outer := int(d.u16())
		start := d.off
		st := d.stat()
		if d.err == nil && d.off-start != outer {
			d.err = errors.New("refcodec: outer stat size does not match")
		}
		fc.Message = p9p.MessageTwstat{Fid: fid, Stat: st}
	case Rwstat:
		fc.Message = p9p.MessageRwstat{}
	default:
		return nil, fmt.Errorf("refcodec: unknown message type %d", typ)
	}
	if d.err != nil {
		return nil, d.err
	}
	if d.off != len(b) {
		return nil, fmt.Errorf("refcodec: %d trailing bytes", len(b)-d.off)
	}
	return fc, nil
}

// DecodeFrame parses a complete frame (with size[4]); the size must equal len(b).
func DecodeFrame(b []byte) (*p9p.Fcall, error) {
	if len(b) < 7 {
		return nil, ErrShort
	}
	n := uint32(b[0]) | uint32(b[1])<<8 | uint32(b[2])<<16 | uint32(b[3])<<24
	if int(n) != len(b) {
		return nil, fmt.Errorf("refcodec: size field %d != frame length %d", n, len(b))
	}
	return Decode(b[4:])
}

// ---------------------------------------------------------------- equality

func eqBytes(a, b []byte) bool {
	if len(a) != len(b) {
		return false
	}
	for i := range a {
		if a[i] != b[i] {
			return false
		}
	}
	return true
}

func EqDir(a, b p9p.Dir) bool {
	return a.Type == b.Type && a.Dev == b.Dev && a.Qid == b.Qid && a.Mode == b.Mode &&
		a.AccessTime.Unix() == b.AccessTime.Unix() && a.ModTime.Unix() == b.ModTime.Unix() &&
		a.Length == b.Length && a.Name == b.Name && a.UID == b.UID && a.GID == b.GID && a.MUID == b.MUID
}

// EqMsg compares two messages structurally; nil and empty slices are equal, times are
// compared at whole-second resolution (all the wire carries).
func EqMsg(a, b p9p.Message) bool {
	switch x := a.(type) {
	case p9p.MessageTwalk:
		y, ok := b.(p9p.MessageTwalk)
		if !ok || x.Fid != y.Fid || x.Newfid != y.Newfid || len(x.Wnames) != len(y.Wnames) {
			return false
		}
		for i := range x.Wnames {
			if x.Wnames[i] != y.Wnames[i] {
				return false
			}
		}
		return true
	case p9p.MessageRwalk:
		y, ok := b.(p9p.MessageRwalk)
		if !ok || len(x.Qids) != len(y.Qids) {
			return false
		}
		for i := range x.Qids {
			if x.Qids[i] != y.Qids[i] {
				return false
			}
		}
		return true
	case p9p.MessageRread:
		y, ok := b.(p9p.MessageRread)
		return ok && eqBytes(x.Data, y.Data)
	case p9p.MessageTwrite:
		y, ok := b.(p9p.MessageTwrite)
		return ok && x.Fid == y.Fid && x.Offset == y.Offset && eqBytes(x.Data, y.Data)
	case p9p.MessageRstat:
		y, ok := b.(p9p.MessageRstat)
		return ok && EqDir(x.Stat, y.Stat)
	case p9p.MessageTwstat:
		y, ok := b.(p9p.MessageTwstat)
		return ok && x.Fid == y.Fid && EqDir(x.Stat, y.Stat)
	default:
		// all remaining message structs are comparable
		defer func() { recover() }()
		return a == b
	}
}

func EqFcall(a, b *p9p.Fcall) bool {
	if a == nil || b == nil {
		return a == b
	}
	return a.Type == b.Type && a.Tag == b.Tag && EqMsg(a.Message, b.Message)
}

// Describe renders a message compactly (long payloads abbreviated) for witnesses.
func Describe(fc *p9p.Fcall) string {
	if fc == nil {
		return "<nil>"
	}
	s := fmt.Sprintf("%v", fc)
	total := len(s)
	if len(s) > 240 {
		s = s[:240]
	}
	q := fmt.Sprintf("%+q", s)
	q = q[1 : len(q)-1]
	if total > 240 {
		q += fmt.Sprintf("...(%d chars)", total)
	}
	return q
}
