package fsx

import (
	"bytes"
	"context"
	"fmt"
	"sort"
	"strings"

	p9p "github.com/frobnitzem/go-p9p"
)

// Op is one session call.
type Op struct {
	Kind   string // auth attach walk open create read write stat wstat clunk remove
	Fid    p9p.Fid
	NewFid p9p.Fid
	Afid   p9p.Fid
	Names  []string
	Name   string
	Perm   uint32
	Mode   p9p.Flag
	Off    int64
	N      int
	Dir    p9p.Dir
	Aname  string
}

func fidStr(f p9p.Fid) string {
	if f == p9p.NOFID {
		return "NOFID"
	}
	return fmt.Sprint(uint32(f))
}

func (o Op) String() string {
	switch o.Kind {
	case "auth":
		return fmt.Sprintf("Auth(afid=%s)", fidStr(o.Afid))
	case "attach":
		return fmt.Sprintf("Attach(%s, afid=%s, aname=%q)", fidStr(o.Fid), fidStr(o.Afid), o.Aname)
	case "walk":
		return fmt.Sprintf("Walk(%s->%s, %q)", fidStr(o.Fid), fidStr(o.NewFid), o.Names)
	case "open":
		return fmt.Sprintf("Open(%s, %#x)", fidStr(o.Fid), uint8(o.Mode))
	case "create":
		return fmt.Sprintf("Create(%s, %q, perm=%#x, mode=%#x)", fidStr(o.Fid), o.Name, o.Perm, uint8(o.Mode))
	case "read":
		return fmt.Sprintf("Read(%s, n=%d, off=%d)", fidStr(o.Fid), o.N, o.Off)
	case "write":
		return fmt.Sprintf("Write(%s, n=%d, off=%d)", fidStr(o.Fid), o.N, o.Off)
	case "wstat":
		return fmt.Sprintf("WStat(%s, name=%q)", fidStr(o.Fid), o.Dir.Name)
	}
	return fmt.Sprintf("%s(%s)", strings.Title(o.Kind), fidStr(o.Fid))
}

// Res is what a session call returned.
type Res struct {
	Err    error
	Qids   []p9p.Qid
	Qid    p9p.Qid
	IOUnit uint32
	Data   []byte
	N      int
	Dir    p9p.Dir
}

// Do executes op on a session.
func Do(ctx context.Context, s p9p.Session, o Op) Res {
	var r Res
	switch o.Kind {
	case "auth":
		r.Qid, r.Err = s.Auth(ctx, o.Afid, "u", o.Aname)
	case "attach":
		r.Qid, r.Err = s.Attach(ctx, o.Fid, o.Afid, "u", o.Aname)
	case "walk":
		r.Qids, r.Err = s.Walk(ctx, o.Fid, o.NewFid, o.Names...)
	case "open":
		r.Qid, r.IOUnit, r.Err = s.Open(ctx, o.Fid, o.Mode)
	case "create":
		r.Qid, r.IOUnit, r.Err = s.Create(ctx, o.Fid, o.Name, o.Perm, o.Mode)
	case "read":
		buf := make([]byte, o.N)
		r.N, r.Err = s.Read(ctx, o.Fid, buf, o.Off)
		if r.N >= 0 && r.N <= len(buf) {
			r.Data = buf[:r.N]
		}
	case "write":
		r.N, r.Err = s.Write(ctx, o.Fid, make([]byte, o.N), o.Off)
	case "stat":
		r.Dir, r.Err = s.Stat(ctx, o.Fid)
	case "wstat":
		r.Err = s.WStat(ctx, o.Fid, o.Dir)
	case "clunk":
		r.Err = s.Clunk(ctx, o.Fid)
	case "remove":
		r.Err = s.Remove(ctx, o.Fid)
	default:
		panic("unknown op " + o.Kind)
	}
	return r
}

// MFid is the model's view of one bound fid.
type MFid struct {
	Node *Node
	Open bool
	Mode p9p.Flag
	H    *Handle // the handle the FS handed out for it
}

// ECall is one expected FS call.
type ECall struct {
	Op    string
	H     *Handle // nil = the FS itself (attach); hNew = the handle returned by the previous call of this operation
	New   bool
	Names []string
	Name  string
	Perm  uint32
	Mode  p9p.Flag
	Off   int64
	N     int
}

// Alt is one acceptable outcome of an operation.
type Alt struct {
	Label   string
	Fail    bool
	ErrIs   error // if non-nil, the error must equal this value
	Calls   []ECall
	AnyNext bool // any number of directory-iterator calls on Calls' handle is acceptable (directory reads)
	Check   func(r Res) string
	Apply   func(log []Call)
}

type Model struct {
	FS *FS
	T  map[p9p.Fid]*MFid
	// coverage matrix: op|pre-state|outcome -> count
	Cover map[string]int
}

func NewModel(fs *FS) *Model {
	return &Model{FS: fs, T: map[p9p.Fid]*MFid{}, Cover: map[string]int{}}
}

func validNames(l []string) bool {
	lead := 0
	for i, s := range l {
		if s == "" || s == "." || strings.ContainsAny(s, "/\\") {
			return false
		}
		if s == ".." {
			if lead != i {
				return false
			}
			lead++
		}
	}
	return true
}

func eqQids(a, b []p9p.Qid) bool {
	if len(a) != len(b) {
		return false
	}
	for i := range a {
		if a[i] != b[i] {
			return false
		}
	}
	return true
}

func fail(label string, calls ...ECall) Alt { return Alt{Label: label, Fail: true, Calls: calls} }

// Expect computes the acceptable outcomes of op in the current model state, given the
// FS fault plan for the calls base+1, base+2, ...
func (m *Model) Expect(o Op, base int) []Alt {
	fault := func(i int) Fault { return m.FS.Plan[base+i] }
	f, bound := m.T[o.Fid]
	if o.Fid == p9p.NOFID {
		bound = false
	}
	switch o.Kind {
	case "auth":
		if o.Afid == p9p.NOFID {
			return []Alt{{Label: "auth-noop"}}
		}
		return []Alt{fail("auth-refused")}

	case "attach":
		if o.Afid != p9p.NOFID {
			return []Alt{fail("attach-with-afid")}
		}
		if o.Fid == p9p.NOFID {
			return []Alt{fail("attach-nofid")}
		}
		if bound {
			return []Alt{{Label: "attach-dupfid", Fail: true, ErrIs: p9p.ErrDupfid}}
		}
		call := ECall{Op: "attach"}
		if fault(1) != NoFault || o.Aname == "fail" {
			return []Alt{fail("attach-fs-error", call)}
		}
		root := m.FS.Root
		return []Alt{{Label: "attach-ok", Calls: []ECall{call},
			Check: func(r Res) string {
				if r.Qid != root.Qid() {
					return fmt.Sprintf("qid %v, want %v", r.Qid, root.Qid())
				}
				return ""
			},
			Apply: func(log []Call) { m.T[o.Fid] = &MFid{Node: root, H: m.handle(log[0].NewH)} }}}

	case "walk":
		if !validNames(o.Names) {
			return []Alt{fail("walk-invalid-names")}
		}
		if !bound {
			return []Alt{fail("walk-unknown-fid")}
		}
		if o.NewFid != o.Fid {
			if o.NewFid == p9p.NOFID {
				return []Alt{fail("walk-new-nofid")}
			}
			if _, dup := m.T[o.NewFid]; dup {
				return []Alt{{Label: "walk-dupfid", Fail: true, ErrIs: p9p.ErrDupfid}}
			}
		}
		if len(o.Names) == 0 {
			if o.NewFid == o.Fid {
				return []Alt{{Label: "walk-noop", Check: func(r Res) string {
					if len(r.Qids) != 0 {
						return "qids for an empty walk"
					}
					return ""
				}}}
			}
			call := ECall{Op: "walk", H: f.H}
			_, _, kind := ResolveWalk(f.Node, nil)
			if fault(1) != NoFault || kind != WalkComplete {
				return []Alt{fail("clone-fs-error", call)}
			}
			node := f.Node
			return []Alt{{Label: "clone-ok", Calls: []ECall{call},
				Check: func(r Res) string {
					if len(r.Qids) != 0 {
						return "qids for a clone"
					}
					return ""
				},
				Apply: func(log []Call) { m.T[o.NewFid] = &MFid{Node: node, H: m.handle(log[0].NewH)} }}}
		}
		if !f.Node.Dir {
			return []Alt{fail("walk-from-file")}
		}
		inplace := o.NewFid == o.Fid
		var alts []Alt
		if inplace && f.Open {
			alts = append(alts, fail("walk-inplace-open-refused"))
		}
		call := ECall{Op: "walk", H: f.H, Names: o.Names}
		if fault(1) == FaultErr {
			return append(alts, fail("walk-fs-error", call))
		}
		qids, target, kind := ResolveWalk(f.Node, o.Names)
		if fault(1) == FaultNil {
			return append(alts, fail("walk-nil-entry", call))
		}
		switch kind {
		case WalkErr, WalkNilEnt, WalkCompleteNil:
			return append(alts, fail("walk-fs-refused", call))
		case WalkNone:
			return append(alts, fail("walk-first-missing-error", call),
				Alt{Label: "walk-first-missing-empty", Calls: []ECall{call}, Check: func(r Res) string {
					if len(r.Qids) != 0 {
						return "qids although the first element is missing"
					}
					return ""
				}})
		case WalkPartial:
			want := qids
			return append(alts, Alt{Label: "walk-partial", Calls: []ECall{call}, Check: func(r Res) string {
				if !eqQids(r.Qids, want) {
					return fmt.Sprintf("qids %v, want the partial %v", r.Qids, want)
				}
				return ""
			}})
		}
		want := qids
		chk := func(r Res) string {
			if !eqQids(r.Qids, want) {
				return fmt.Sprintf("qids %v, want %v", r.Qids, want)
			}
			return ""
		}
		if !inplace {
			return append(alts, Alt{Label: "walk-complete-newfid", Calls: []ECall{call}, Check: chk,
				Apply: func(log []Call) { m.T[o.NewFid] = &MFid{Node: target, H: m.handle(log[0].NewH)} }})
		}
		old := f.H
		return append(alts, Alt{Label: "walk-complete-inplace", Calls: []ECall{call, {Op: "clunk", H: old}}, Check: chk,
			Apply: func(log []Call) { m.T[o.Fid] = &MFid{Node: target, H: m.handle(log[0].NewH)} }})

	case "open":
		if !bound {
			return []Alt{fail("open-unknown-fid")}
		}
		if f.Open {
			return []Alt{fail("open-already-open")}
		}
		if f.Node.Dir {
			call := ECall{Op: "opendir", H: f.H}
			if fault(1) != NoFault || OpenDirOutcome(f.Node) != OK {
				return []Alt{fail("opendir-fs-error", call)}
			}
			return []Alt{{Label: "open-dir-ok", Calls: []ECall{call},
				Check: func(r Res) string {
					if r.Qid != f.Node.Qid() {
						return fmt.Sprintf("qid %v want %v", r.Qid, f.Node.Qid())
					}
					return ""
				},
				Apply: func([]Call) { f.Open, f.Mode = true, o.Mode }}}
		}
		call := ECall{Op: "open", H: f.H, Mode: o.Mode}
		if fault(1) != NoFault || OpenOutcome(f.Node) != OK {
			return []Alt{fail("open-fs-error", call)}
		}
		return []Alt{{Label: "open-file-ok", Calls: []ECall{call},
			Check: func(r Res) string {
				if r.Qid != f.Node.Qid() || r.IOUnit != uint32(f.Node.IOUnit()) {
					return fmt.Sprintf("(qid %v, iounit %d) want (%v, %d)", r.Qid, r.IOUnit, f.Node.Qid(), f.Node.IOUnit())
				}
				return ""
			},
			Apply: func([]Call) { f.Open, f.Mode = true, o.Mode }}}

	case "create":
		if o.Name == "." || o.Name == ".." {
			return []Alt{fail("create-dot")}
		}
		if !bound {
			return []Alt{fail("create-unknown-fid")}
		}
		if !f.Node.Dir {
			return []Alt{fail("create-in-file")}
		}
		call := ECall{Op: "create", H: f.H, Name: o.Name, Perm: o.Perm, Mode: o.Mode}
		kind := CreateOutcome(f.Node, o.Name)
		if fault(1) != NoFault || kind != CreateOK {
			return []Alt{fail("create-fs-error", call)}
		}
		isDir := o.Perm&p9p.DMDIR != 0
		parent := f.H
		if isDir {
			od := ECall{Op: "opendir", New: true}
			odFails := fault(2) != NoFault || strings.HasPrefix(o.Name, "odfail")
			if odFails {
				unbind := func([]Call) { delete(m.T, o.Fid) }
				return []Alt{
					{Label: "create-dir-opendir-fails/unbound", Fail: true, Calls: []ECall{call, od, {Op: "clunk", H: parent}, {Op: "clunk", New: true}}, Apply: unbind},
					{Label: "create-dir-opendir-fails/unbound", Fail: true, Calls: []ECall{call, od, {Op: "clunk", New: true}, {Op: "clunk", H: parent}}, Apply: unbind},
					{Label: "create-dir-opendir-fails/unbound", Fail: true, Calls: []ECall{call, od, {Op: "clunk", H: parent}}, Apply: unbind},
					{Label: "create-dir-opendir-fails/untouched", Fail: true, Calls: []ECall{call, od, {Op: "clunk", New: true}}},
					{Label: "create-dir-opendir-fails/untouched", Fail: true, Calls: []ECall{call, od}},
				}
			}
			return []Alt{{Label: "create-dir-ok", Calls: []ECall{call, od},
				Check: func(r Res) string {
					if r.Qid.Type&p9p.QTDIR == 0 {
						return "qid of a created directory lacks QTDIR"
					}
					return ""
				},
				Apply: func(log []Call) {
					nh := m.handle(log[0].NewH)
					parent.MarkConsumed()
					m.T[o.Fid] = &MFid{Node: nh.Node, H: nh, Open: true, Mode: o.Mode}
				}}}
		}
		return []Alt{{Label: "create-file-ok", Calls: []ECall{call},
			Check: func(r Res) string {
				if r.Qid.Type&p9p.QTDIR != 0 {
					return "qid of a created file has QTDIR"
				}
				return ""
			},
			Apply: func(log []Call) {
				nh := m.handle(log[0].NewH)
				parent.MarkConsumed()
				m.T[o.Fid] = &MFid{Node: nh.Node, H: nh, Open: true, Mode: o.Mode}
			}}}

	case "read":
		if !bound {
			return []Alt{fail("read-unknown-fid")}
		}
		if !f.Open {
			return []Alt{fail("read-not-open")}
		}
		if f.Mode&3 == p9p.OWRITE {
			return []Alt{fail("read-mode-forbids")}
		}
		if f.Node.Dir {
			return []Alt{{Label: "read-dir", AnyNext: true, Calls: []ECall{{Op: "next", H: f.H}}}, {Label: "read-dir-refused", Fail: true, AnyNext: true, Calls: []ECall{{Op: "next", H: f.H}}}}
		}
		call := ECall{Op: "read", H: f.H, Off: o.Off, N: o.N}
		if fault(1) != NoFault || IOFails(f.Node) {
			return []Alt{fail("read-fs-error", call)}
		}
		want := make([]byte, o.N)
		want = want[:FileRead(f.Node, want, o.Off)]
		return []Alt{{Label: "read-file-ok", Calls: []ECall{call}, Check: func(r Res) string {
			if !bytes.Equal(r.Data, want) {
				return fmt.Sprintf("read %d bytes, want %d bytes of the file's content", len(r.Data), len(want))
			}
			return ""
		}}}

	case "write":
		if !bound {
			return []Alt{fail("write-unknown-fid")}
		}
		if !f.Open {
			return []Alt{fail("write-not-open")}
		}
		if m3 := f.Mode & 3; m3 != p9p.OWRITE && m3 != p9p.ORDWR {
			return []Alt{fail("write-mode-forbids")}
		}
		if f.Node.Dir {
			return []Alt{fail("write-to-dir")}
		}
		call := ECall{Op: "write", H: f.H, Off: o.Off, N: o.N}
		if fault(1) != NoFault || IOFails(f.Node) {
			return []Alt{fail("write-fs-error", call)}
		}
		return []Alt{{Label: "write-file-ok", Calls: []ECall{call}, Check: func(r Res) string {
			if r.N != o.N {
				return fmt.Sprintf("wrote %d, want %d", r.N, o.N)
			}
			return ""
		}}}

	case "stat":
		if !bound {
			return []Alt{fail("stat-unknown-fid")}
		}
		call := ECall{Op: "stat", H: f.H}
		if fault(1) != NoFault || StatFails(f.Node) {
			return []Alt{fail("stat-fs-error", call)}
		}
		want := f.Node.Stat()
		return []Alt{{Label: "stat-ok", Calls: []ECall{call}, Check: func(r Res) string {
			if r.Dir.Name != want.Name || r.Dir.Qid != want.Qid || r.Dir.Length != want.Length {
				return fmt.Sprintf("stat %v, want %v", r.Dir, want)
			}
			return ""
		}}}

	case "wstat":
		if !bound {
			return []Alt{fail("wstat-unknown-fid")}
		}
		call := ECall{Op: "wstat", H: f.H, Name: o.Dir.Name}
		if fault(1) != NoFault || o.Dir.Name == "fail" || StatFails(f.Node) {
			return []Alt{fail("wstat-fs-error", call)}
		}
		return []Alt{{Label: "wstat-ok", Calls: []ECall{call}}}

	case "clunk", "remove":
		if !bound {
			return []Alt{fail(o.Kind + "-unknown-fid")}
		}
		call := ECall{Op: o.Kind, H: f.H}
		fails := fault(1) != NoFault
		if o.Kind == "clunk" {
			fails = fails || ClunkFails(f.Node)
		} else {
			rf, _ := RemoveOutcome(f.Node)
			fails = fails || rf
		}
		unbind := func([]Call) { delete(m.T, o.Fid) }
		if fails {
			return []Alt{{Label: o.Kind + "-fs-error-still-unbinds", Fail: true, Calls: []ECall{call}, Apply: unbind}}
		}
		return []Alt{{Label: o.Kind + "-ok", Calls: []ECall{call}, Apply: unbind}}
	}
	panic("model: unknown op " + o.Kind)
}

func (m *Model) handle(id int) *Handle {
	m.FS.mu.Lock()
	defer m.FS.mu.Unlock()
	if id <= 0 || id > len(m.FS.Handles) {
		return nil
	}
	return m.FS.Handles[id-1]
}

// matchCalls compares the FS calls an operation actually made with an alternative's.
func (m *Model) matchCalls(a Alt, log []Call) string {
	if a.AnyNext {
		for _, c := range log {
			if c.Op != "next" || c.H != a.Calls[0].H.ID {
				return fmt.Sprintf("unexpected FS call %v during a directory read", c)
			}
		}
		return ""
	}
	if len(log) != len(a.Calls) {
		return fmt.Sprintf("%d FS calls, want %d", len(log), len(a.Calls))
	}
	newH := 0
	for i, e := range a.Calls {
		c := log[i]
		if c.Op != e.Op {
			return fmt.Sprintf("FS call %d is %s, want %s", i+1, c.Op, e.Op)
		}
		switch {
		case e.New:
			if c.H != newH || newH == 0 {
				return fmt.Sprintf("FS call %d (%s) went to h%d, want the entry just created (h%d)", i+1, c.Op, c.H, newH)
			}
		case e.H != nil:
			if c.H != e.H.ID {
				return fmt.Sprintf("FS call %d (%s) went to h%d, want %v", i+1, c.Op, c.H, e.H)
			}
		default:
			if c.H != 0 {
				return fmt.Sprintf("FS call %d (%s) went to h%d, want the file system itself", i+1, c.Op, c.H)
			}
		}
		switch e.Op {
		case "walk":
			if strings.Join(c.Names, "\x00") != strings.Join(e.Names, "\x00") || len(c.Names) != len(e.Names) {
				return fmt.Sprintf("Walk got names %q, sent %q", c.Names, e.Names)
			}
		case "create":
			if c.Name != e.Name || c.Perm != e.Perm || c.Mode != e.Mode {
				return fmt.Sprintf("Create got (%q,%#x,%#x), sent (%q,%#x,%#x)", c.Name, c.Perm, c.Mode, e.Name, e.Perm, e.Mode)
			}
		case "open":
			if c.Mode != e.Mode {
				return fmt.Sprintf("Open got mode %#x, sent %#x", c.Mode, e.Mode)
			}
		case "read", "write":
			if c.Off != e.Off || c.N != e.N {
				return fmt.Sprintf("%s got (off=%d,n=%d), sent (off=%d,n=%d)", e.Op, c.Off, c.N, e.Off, e.N)
			}
		case "wstat":
			if c.Dir.Name != e.Name {
				return fmt.Sprintf("WStat got name %q, sent %q", c.Dir.Name, e.Name)
			}
		}
		if c.NewH != 0 {
			newH = c.NewH
		}
	}
	return ""
}

// Judge matches the actual outcome against the alternatives; on success it applies the
// matching alternative's state change and returns its label.
func (m *Model) Judge(o Op, alts []Alt, r Res, log []Call) (label string, problem string) {
	var why []string
	for _, a := range alts {
		if a.Fail != (r.Err != nil) {
			why = append(why, fmt.Sprintf("[%s] expects failure=%v", a.Label, a.Fail))
			continue
		}
		if a.ErrIs != nil && r.Err != a.ErrIs {
			why = append(why, fmt.Sprintf("[%s] expects error %q, got %q", a.Label, a.ErrIs, r.Err))
			continue
		}
		if p := m.matchCalls(a, log); p != "" {
			why = append(why, fmt.Sprintf("[%s] %s", a.Label, p))
			continue
		}
		if a.Check != nil && !a.Fail {
			if p := a.Check(r); p != "" {
				why = append(why, fmt.Sprintf("[%s] %s", a.Label, p))
				continue
			}
		}
		if a.Apply != nil {
			a.Apply(log)
		}
		pre := "bound"
		if _, ok := m.T[o.Fid]; !ok && !strings.HasSuffix(a.Label, "-ok") {
			pre = "any"
		}
		_ = pre
		m.Cover[a.Label]++
		return a.Label, ""
	}
	var ls []string
	for _, c := range log {
		ls = append(ls, c.String())
	}
	return "", fmt.Sprintf("%v returned err=%v qids=%v qid=%v n=%d with FS calls [%s]; no acceptable outcome matches: %s",
		o, r.Err, r.Qids, r.Qid, r.N, strings.Join(ls, "; "), strings.Join(why, " | "))
}

// CompareTable checks the real fid table (hook) against the model.
func (m *Model) CompareTable(tab []p9p.VerifFid) string {
	seen := map[p9p.Fid]bool{}
	for _, e := range tab {
		if e.Locked {
			return fmt.Sprintf("fid %s is locked although no operation is in progress", fidStr(e.Fid))
		}
		f, ok := m.T[e.Fid]
		if e.Ent == nil {
			if ok {
				return fmt.Sprintf("fid %s is in the table without an entry but the model has it bound to %s", fidStr(e.Fid), f.Node.Path())
			}
			return fmt.Sprintf("fid %s is still reserved in the table (no entry) after the operation returned", fidStr(e.Fid))
		}
		if !ok {
			return fmt.Sprintf("fid %s is bound in the table (%v) but must not be", fidStr(e.Fid), e.Ent)
		}
		seen[e.Fid] = true
		h := HandleOf(e.Ent)
		if h == nil || h != f.H {
			return fmt.Sprintf("fid %s is bound to %v, want %v", fidStr(e.Fid), e.Ent, f.H)
		}
		if (e.File != nil) != f.Open {
			return fmt.Sprintf("fid %s open=%v in the table, want %v", fidStr(e.Fid), e.File != nil, f.Open)
		}
		if f.Open {
			if e.Mode != f.Mode {
				return fmt.Sprintf("fid %s open mode %#x in the table, want %#x", fidStr(e.Fid), e.Mode, f.Mode)
			}
			if hf, isFile := e.File.(*HFile); isFile {
				if hf.H != f.H {
					return fmt.Sprintf("fid %s reads/writes through the file of %v but is bound to %v", fidStr(e.Fid), hf.H, f.H)
				}
			} else if !f.Node.Dir {
				return fmt.Sprintf("fid %s (a file) has a foreign File object %T", fidStr(e.Fid), e.File)
			}
		}
	}
	for fid, f := range m.T {
		if !seen[fid] {
			return fmt.Sprintf("fid %s should be bound to %s but is not in the table", fidStr(fid), f.Node.Path())
		}
	}
	return ""
}

// StateKey is a canonical rendering of the model state (for distinct-state counting).
func (m *Model) StateKey() string {
	var ks []string
	for fid, f := range m.T {
		ks = append(ks, fmt.Sprintf("%s=%s/%v/%d", fidStr(fid), f.Node.Path(), f.Open, f.Mode&3))
	}
	sort.Strings(ks)
	return strings.Join(ks, ",")
}
