package fsx

import (
	"context"
	"errors"
	"fmt"
	"strings"
	"sync"
	"sync/atomic"

	p9p "github.com/frobnitzem/go-p9p"
)

// Fault is an injected failure of one FS call, chosen by call index.
type Fault int

const (
	NoFault Fault = iota
	FaultErr
	FaultNil // return a nil result with a nil error (where the call has a result)
)

const (
	StLive int32 = iota
	StReleased
	StConsumed
)

// Call is one call made by the session into the file system.
type Call struct {
	Idx    int
	Op     string // attach walk open opendir create read write stat wstat clunk remove next iounit
	H      int    // handle id the call was made on (0 = the FS itself)
	Node   *Node
	Names  []string
	Name   string
	Perm   uint32
	Mode   p9p.Flag
	Off    int64
	N      int
	Dir    p9p.Dir
	Fault  Fault
	Failed bool
	NewH   int // handle returned (0 = none)
	Ctx    context.Context
}

func (c Call) String() string {
	s := fmt.Sprintf("#%d %s h%d", c.Idx, c.Op, c.H)
	if c.Node != nil {
		s += "(" + c.Node.Path() + ")"
	}
	switch c.Op {
	case "walk":
		s += fmt.Sprintf(" %q", c.Names)
	case "create":
		s += fmt.Sprintf(" %q perm=%#x mode=%#x", c.Name, c.Perm, c.Mode)
	case "open":
		s += fmt.Sprintf(" mode=%#x", c.Mode)
	case "read", "write":
		s += fmt.Sprintf(" off=%d n=%d", c.Off, c.N)
	}
	if c.Failed {
		s += " FAILED"
	}
	if c.NewH != 0 {
		s += fmt.Sprintf(" ->h%d", c.NewH)
	}
	return s
}

// Problem is something an online monitor inside the FS saw.
type Problem struct {
	Kind string // double-release | use-after-release | use-after-consume | overlap
	Msg  string
}

type FS struct {
	AuthRequired bool         // RequireAuth answers true and Auth hands out an AuthH
	tmu          sync.RWMutex // guards the tree (Kids maps, Removed flags): sessions may call into the FS concurrently
	mu           sync.Mutex
	Root         *Node
	nextID       *uint64
	Handles      []*Handle
	Log          []Call
	Plan         map[int]Fault
	calls        int
	problems     []Problem
	// Gate, if set, is invoked at the entry of every FS call (after the monitors have
	// accounted for it). It may block; it is how in-flight sets are built.
	Gate func(c *Call)
	// AttachErr makes Attach fail (besides the fault plan).
	NoQuietQid bool
}

func New() *FS {
	root, id := NewTree()
	return &FS{Root: root, nextID: id, Plan: map[int]Fault{}}
}

func (f *FS) problem(kind, format string, a ...interface{}) {
	f.mu.Lock()
	if len(f.problems) < 50 {
		f.problems = append(f.problems, Problem{kind, fmt.Sprintf(format, a...)})
	}
	f.mu.Unlock()
}

// Problems returns and keeps the monitor findings so far.
func (f *FS) Problems() []Problem {
	f.mu.Lock()
	defer f.mu.Unlock()
	return append([]Problem{}, f.problems...)
}

func (f *FS) Calls() int { f.mu.Lock(); defer f.mu.Unlock(); return f.calls }

// LogSince returns the calls with index > idx.
func (f *FS) LogSince(idx int) []Call {
	f.mu.Lock()
	defer f.mu.Unlock()
	var out []Call
	for _, c := range f.Log {
		if c.Idx > idx {
			out = append(out, c)
		}
	}
	return out
}

func (f *FS) begin(c *Call) *Call {
	f.mu.Lock()
	f.calls++
	c.Idx = f.calls
	c.Fault = f.Plan[c.Idx]
	f.Log = append(f.Log, *c)
	gate := f.Gate
	f.mu.Unlock()
	if gate != nil {
		gate(c)
	}
	return c
}

func (f *FS) finish(c *Call) {
	f.mu.Lock()
	for i := len(f.Log) - 1; i >= 0; i-- {
		if f.Log[i].Idx == c.Idx {
			f.Log[i].Failed = c.Failed
			f.Log[i].NewH = c.NewH
			break
		}
	}
	f.mu.Unlock()
}

func (f *FS) newHandle(n *Node, origin string) *Handle {
	f.mu.Lock()
	h := &Handle{ID: len(f.Handles) + 1, fs: f, Node: n, Origin: origin}
	f.Handles = append(f.Handles, h)
	f.mu.Unlock()
	return h
}

var ErrInjectedFS = errors.New("injected file-system failure")

// ---- p9p.FileSys

func (f *FS) RequireAuth(context.Context) bool { return f.AuthRequired }
func (f *FS) Auth(ctx context.Context, uname, aname string) (p9p.AuthFile, error) {
	c := f.begin(&Call{Op: "auth", Ctx: ctx})
	defer f.finish(c)
	if !f.AuthRequired || c.Fault != NoFault {
		c.Failed = true
		return nil, errors.New("fsx: no auth")
	}
	return &AuthH{}, nil
}

// AuthH is the authentication file handed out when AuthRequired is set. It is not a
// directory entry: the session keeps it on an auth fid that has no entry bound.
type AuthH struct{ Closed int32 }

func (a *AuthH) Read(ctx context.Context, p []byte, off int64) (int, error)  { return 0, nil }
func (a *AuthH) Write(ctx context.Context, p []byte, off int64) (int, error) { return len(p), nil }
func (a *AuthH) IOUnit() int                                                 { return 0 }
func (a *AuthH) Close(ctx context.Context) error                             { atomic.AddInt32(&a.Closed, 1); return nil }
func (a *AuthH) Success() bool                                               { return true }
func (f *FS) Attach(ctx context.Context, uname, aname string, af p9p.AuthFile) (p9p.Dirent, error) {
	c := f.begin(&Call{Op: "attach", Name: uname + "\x00" + aname, Ctx: ctx})
	defer f.finish(c)
	if c.Fault != NoFault || aname == "fail" {
		c.Failed = true
		return nil, fmt.Errorf("attach: %w", ErrInjectedFS)
	}
	h := f.newHandle(f.Root, "attach")
	h.ExpectBound = true
	c.NewH = h.ID
	return h, nil
}

// ---- Handle: p9p.Dirent

type Handle struct {
	ID          int
	fs          *FS
	Node        *Node
	Origin      string
	state       int32
	inCall      int32
	ExpectBound bool // handed out as the result of a complete attach/walk/create
	Placeholder bool // returned with a partial walk: must never be used
	released    int32
	opened      bool
	calls       int32
	createdFrom *Handle // the directory handle whose Create produced this entry
}

func (h *Handle) State() int32 { return atomic.LoadInt32(&h.state) }
func (h *Handle) String() string {
	return fmt.Sprintf("h%d(%s,%s)", h.ID, h.Node.Path(), h.Origin)
}

// enter runs the release and overlap monitors and logs the call.
func (h *Handle) enter(c *Call, release bool) *Call {
	c.H, c.Node = h.ID, h.Node
	if n := atomic.AddInt32(&h.inCall, 1); n > 1 {
		h.fs.problem("overlap", "%s entered on %v while another call on the same handle is in progress", c.Op, h)
	}
	atomic.AddInt32(&h.calls, 1)
	switch st := atomic.LoadInt32(&h.state); {
	case h.Placeholder:
		h.fs.problem("use-after-release", "%s called on the placeholder entry returned with a partial walk (%v)", c.Op, h)
	case st == StReleased && release:
		h.fs.problem("double-release", "%s on %v which was already released", c.Op, h)
	case st == StReleased:
		h.fs.problem("use-after-release", "%s on %v after its release", c.Op, h)
	case st == StConsumed:
		h.fs.problem("use-after-consume", "%s on %v after it was consumed by a successful create", c.Op, h)
	}
	if release {
		atomic.StoreInt32(&h.state, StReleased)
		atomic.AddInt32(&h.released, 1)
	}
	return h.fs.begin(c)
}

func (h *Handle) exit(c *Call) {
	h.fs.finish(c)
	atomic.AddInt32(&h.inCall, -1)
}

func (h *Handle) Qid() p9p.Qid { return h.Node.Qid() }

func (h *Handle) OpenDir(ctx context.Context) (p9p.ReadNext, error) {
	c := h.enter(&Call{Op: "opendir", Ctx: ctx}, false)
	defer h.exit(c)
	out := OpenDirOutcome(h.Node)
	if c.Fault != NoFault || out == Err || !h.Node.Dir {
		c.Failed = true
		return nil, fmt.Errorf("opendir %s: %w", h.Node.Path(), ErrInjectedFS)
	}
	h.opened = true
	if h.createdFrom != nil {
		// the create of this directory is now complete: its parent handle is consumed
		h.createdFrom.MarkConsumed()
		h.createdFrom = nil
	}
	h.fs.tmu.RLock()
	names := h.Node.KidNames()
	h.fs.tmu.RUnlock()
	pos := 0
	return func(ctx context.Context) ([]p9p.Dir, error) {
		nc := h.enter(&Call{Op: "next", Ctx: ctx}, false)
		defer h.exit(nc)
		if nc.Fault == FaultErr {
			nc.Failed = true
			return nil, fmt.Errorf("readdir: %w", ErrInjectedFS)
		}
		if pos >= len(names) {
			return nil, nil
		}
		k := 2
		if k > len(names)-pos {
			k = len(names) - pos
		}
		var out []p9p.Dir
		h.fs.tmu.RLock()
		defer h.fs.tmu.RUnlock()
		for _, nm := range names[pos : pos+k] {
			if kid := h.Node.Kids[nm]; kid != nil {
				out = append(out, kid.Stat())
			} else {
				out = append(out, p9p.Dir{Name: nm})
			}
		}
		pos += k
		return out, nil
	}, nil
}

func (h *Handle) Walk(ctx context.Context, names ...string) ([]p9p.Qid, p9p.Dirent, error) {
	c := h.enter(&Call{Op: "walk", Names: append([]string{}, names...), Ctx: ctx}, false)
	defer h.exit(c)
	if c.Fault == FaultErr {
		c.Failed = true
		return nil, nil, fmt.Errorf("walk: %w", ErrInjectedFS)
	}
	h.fs.tmu.RLock()
	qids, target, kind := ResolveWalk(h.Node, names)
	h.fs.tmu.RUnlock()
	if c.Fault == FaultNil {
		c.Failed = true
		return qids, nil, nil
	}
	switch kind {
	case WalkErr, WalkCloneErr:
		c.Failed = true
		return nil, nil, p9p.ErrNotfound
	case WalkNilEnt, WalkCompleteNil:
		c.Failed = true
		return qids, nil, nil
	case WalkNone, WalkPartial:
		ph := h.fs.newHandle(h.Node, "placeholder")
		ph.Placeholder = true
		return qids, ph, nil
	}
	nh := h.fs.newHandle(target, "walk")
	nh.ExpectBound = true
	c.NewH = nh.ID
	return qids, nh, nil
}

func (h *Handle) Create(ctx context.Context, name string, perm uint32, mode p9p.Flag) (p9p.Dirent, p9p.File, error) {
	c := h.enter(&Call{Op: "create", Name: name, Perm: perm, Mode: mode, Ctx: ctx}, false)
	defer h.exit(c)
	h.fs.tmu.Lock()
	kind := CreateOutcome(h.Node, name)
	if c.Fault == FaultErr || kind == CreateErr {
		h.fs.tmu.Unlock()
		c.Failed = true
		return nil, nil, fmt.Errorf("create %q: %w", name, ErrInjectedFS)
	}
	if c.Fault == FaultNil {
		h.fs.tmu.Unlock()
		c.Failed = true
		return nil, nil, nil
	}
	*h.fs.nextID++
	n := &Node{ID: *h.fs.nextID, Name: name, Dir: perm&p9p.DMDIR != 0, Parent: h.Node}
	if n.Dir {
		n.Kids = map[string]*Node{}
	}
	h.Node.Kids[name] = n
	h.fs.tmu.Unlock()
	nh := h.fs.newHandle(n, "create")
	c.NewH = nh.ID
	switch kind {
	case CreateNilEnt:
		c.Failed = true
		nh.Placeholder = true
		return nil, &HFile{nh}, nil
	case CreateNilFile:
		c.Failed = true
		return nh, nil, nil
	}
	nh.ExpectBound = true
	if n.Dir && OpenDirOutcome(n) != OK {
		nh.ExpectBound = false // the session cannot complete the create; it never becomes bound
	}
	nh.opened = !n.Dir
	if n.Dir {
		nh.createdFrom = h // consumed once the session has opened the new directory
	} else {
		defer h.MarkConsumed() // a successful create consumes the parent entry: no call on it may follow
	}
	return nh, &HFile{nh}, nil
}

// MarkConsumed is called by the driver when the model says the create succeeded: the
// parent handle must not be touched again.
func (h *Handle) MarkConsumed() { atomic.CompareAndSwapInt32(&h.state, StLive, StConsumed) }

func (h *Handle) Open(ctx context.Context, mode p9p.Flag) (p9p.File, error) {
	c := h.enter(&Call{Op: "open", Mode: mode, Ctx: ctx}, false)
	defer h.exit(c)
	out := OpenOutcome(h.Node)
	if c.Fault == FaultErr || out == Err {
		c.Failed = true
		if strings.HasPrefix(h.Node.Name, "ofailf") {
			// an error together with a (half-built) non-nil File: the error decides
			return &HFile{h}, fmt.Errorf("open %s: %w", h.Node.Path(), ErrInjectedFS)
		}
		return nil, fmt.Errorf("open %s: %w", h.Node.Path(), ErrInjectedFS)
	}
	if c.Fault == FaultNil || out == Nil {
		c.Failed = true
		return nil, nil
	}
	h.opened = true
	return &HFile{h}, nil
}

func (h *Handle) Remove(ctx context.Context) error {
	c := h.enter(&Call{Op: "remove", Ctx: ctx}, true)
	defer h.exit(c)
	h.fs.tmu.Lock()
	fails, detaches := RemoveOutcome(h.Node)
	if c.Fault != NoFault {
		fails, detaches = true, false
	}
	if detaches {
		delete(h.Node.Parent.Kids, h.Node.Name)
		h.Node.Removed = true
	}
	h.fs.tmu.Unlock()
	if fails {
		c.Failed = true
		return fmt.Errorf("remove %s: %w", h.Node.Path(), ErrInjectedFS)
	}
	return nil
}

func (h *Handle) Clunk(ctx context.Context) error {
	c := h.enter(&Call{Op: "clunk", Ctx: ctx}, true)
	defer h.exit(c)
	if c.Fault != NoFault || ClunkFails(h.Node) {
		c.Failed = true
		return fmt.Errorf("clunk %s: %w", h.Node.Path(), ErrInjectedFS)
	}
	return nil
}

func (h *Handle) Stat(ctx context.Context) (p9p.Dir, error) {
	c := h.enter(&Call{Op: "stat", Ctx: ctx}, false)
	defer h.exit(c)
	if c.Fault != NoFault || StatFails(h.Node) {
		c.Failed = true
		return p9p.Dir{}, fmt.Errorf("stat: %w", ErrInjectedFS)
	}
	return h.Node.Stat(), nil
}

func (h *Handle) WStat(ctx context.Context, d p9p.Dir) error {
	c := h.enter(&Call{Op: "wstat", Dir: d, Ctx: ctx}, false)
	defer h.exit(c)
	if c.Fault != NoFault || d.Name == "fail" || StatFails(h.Node) {
		c.Failed = true
		return fmt.Errorf("wstat: %w", ErrInjectedFS)
	}
	return nil
}

// ---- HFile: p9p.File bound to its handle

type HFile struct{ H *Handle }

func (f *HFile) Read(ctx context.Context, p []byte, off int64) (int, error) {
	c := f.H.enter(&Call{Op: "read", Off: off, N: len(p), Ctx: ctx}, false)
	defer f.H.exit(c)
	if c.Fault != NoFault || IOFails(f.H.Node) {
		c.Failed = true
		return 0, fmt.Errorf("read: %w", ErrInjectedFS)
	}
	return FileRead(f.H.Node, p, off), nil
}

// FileRead is the content function shared with the model.
func FileRead(n *Node, p []byte, off int64) int {
	L := n.Length()
	if off < 0 || off >= L {
		return 0
	}
	k := int64(len(p))
	if k > L-off {
		k = L - off
	}
	for i := int64(0); i < k; i++ {
		p[i] = n.ByteAt(off + i)
	}
	return int(k)
}

func (f *HFile) Write(ctx context.Context, p []byte, off int64) (int, error) {
	c := f.H.enter(&Call{Op: "write", Off: off, N: len(p), Ctx: ctx}, false)
	defer f.H.exit(c)
	if c.Fault != NoFault || IOFails(f.H.Node) {
		c.Failed = true
		return 0, fmt.Errorf("write: %w", ErrInjectedFS)
	}
	return len(p), nil
}

func (f *HFile) IOUnit() int { return f.H.Node.IOUnit() }

// HandleOf maps a Dirent found in the fid table back to the monitored handle.
func HandleOf(d p9p.Dirent) *Handle {
	h, _ := d.(*Handle)
	return h
}

// FinalCheck reports release-discipline problems visible only at the end of a session
// (after Stop): handles that were handed out for binding and are still live.
func (f *FS) FinalCheck() []Problem {
	f.mu.Lock()
	hs := append([]*Handle{}, f.Handles...)
	f.mu.Unlock()
	var out []Problem
	for _, h := range hs {
		st := atomic.LoadInt32(&h.state)
		if h.ExpectBound && st == StLive {
			out = append(out, Problem{"leak", fmt.Sprintf("%v was handed to the session for binding and was never released", h)})
		}
		if r := atomic.LoadInt32(&h.released); r > 1 {
			out = append(out, Problem{"double-release", fmt.Sprintf("%v released %d times", h, r)})
		}
	}
	return out
}

// ReleaseStats counts handles by how they ended.
func (f *FS) ReleaseStats() (live, released, consumed int) {
	f.mu.Lock()
	defer f.mu.Unlock()
	for _, h := range f.Handles {
		if h.Placeholder {
			continue
		}
		switch atomic.LoadInt32(&h.state) {
		case StLive:
			live++
		case StReleased:
			released++
		case StConsumed:
			consumed++
		}
	}
	return
}
