// Package fsx is the instrumented file system handed to the server session under test
// (every Dirent/File it returns is a monitored handle) together with the sequential
// reference model of the 9P fid table (model.go).
package fsx

import (
	"fmt"
	"sort"
	"strings"

	p9p "github.com/frobnitzem/go-p9p"
)

// Node is a node of the backing tree. The tree is tiny and its behaviour is a
// deterministic function of (tree state, operation, arguments): failure modes are
// selected by name prefixes, so that the reference model can predict every outcome.
type Node struct {
	ID      uint64
	Name    string
	Dir     bool
	Parent  *Node
	Kids    map[string]*Node
	Removed bool
}

func (n *Node) Qid() p9p.Qid {
	q := p9p.Qid{Path: n.ID, Version: uint32(n.ID * 3)}
	if n.Dir {
		q.Type = p9p.QTDIR
	}
	// qid type bits besides QTDIR, selected by name: an append-only / temporary / exclusive-use
	// directory is still a directory
	switch {
	case strings.HasPrefix(n.Name, "dappend"):
		q.Type |= p9p.QTAPPEND
	case strings.HasPrefix(n.Name, "dtmp"):
		q.Type |= p9p.QTTMP
	case strings.HasPrefix(n.Name, "dexcl"):
		q.Type |= p9p.QTEXCL
	}
	return q
}

func (n *Node) Path() string {
	if n.Parent == nil || n.Parent == n {
		return "/"
	}
	p := n.Parent.Path()
	if p == "/" {
		return "/" + n.Name
	}
	return p + "/" + n.Name
}

func (n *Node) KidNames() []string {
	var out []string
	for k := range n.Kids {
		out = append(out, k)
	}
	sort.Strings(out)
	return out
}

// Length and content of a file are functions of its id: reads are checkable without state.
func (n *Node) Length() int64 { return 64 + int64(n.ID%100) }
func (n *Node) ByteAt(off int64) byte {
	return byte(uint64(off)*7 + n.ID*131)
}
func (n *Node) IOUnit() int {
	if n.ID%3 == 0 {
		return 8192
	}
	return 0
}

func (n *Node) Stat() p9p.Dir {
	d := p9p.Dir{Qid: n.Qid(), Name: n.Name, Length: uint64(n.Length()), UID: "u", GID: "g", MUID: "m", Mode: 0644}
	if n.Dir {
		d.Mode = p9p.DMDIR | 0755
		d.Length = 0
	}
	return d
}

type WalkKind int

const (
	WalkComplete    WalkKind = iota // all names resolved
	WalkPartial                     // k >= 1 names resolved, then missing
	WalkNone                        // first name missing, FS answers (no qids, placeholder, nil)
	WalkErr                         // first name missing, FS answers an error
	WalkNilEnt                      // partial, and the FS answers a nil entry
	WalkCloneErr                    // clone of a node whose name says clones fail
	WalkCompleteNil                 // all names resolved but the FS answers a nil entry (broken FS)
)

// ResolveWalk is the single definition of how the instrumented FS answers a walk.
func ResolveWalk(from *Node, names []string) (qids []p9p.Qid, target *Node, kind WalkKind) {
	cur := from
	if len(names) == 0 {
		if strings.HasPrefix(from.Name, "wfail") {
			return nil, nil, WalkCloneErr
		}
		return nil, from, WalkComplete
	}
	for i, nm := range names {
		var next *Node
		if nm == ".." {
			next = cur.Parent
			if next == nil {
				next = cur
			}
		} else if cur.Dir && !cur.Removed {
			next = cur.Kids[nm]
		}
		if next == nil {
			if i == 0 {
				if strings.HasPrefix(nm, "x") {
					return nil, nil, WalkErr
				}
				return nil, nil, WalkNone
			}
			if strings.HasPrefix(nm, "nil") {
				return qids, nil, WalkNilEnt
			}
			return qids, nil, WalkPartial
		}
		qids = append(qids, next.Qid())
		cur = next
	}
	if strings.HasPrefix(cur.Name, "wnil") {
		return qids, cur, WalkCompleteNil
	}
	return qids, cur, WalkComplete
}

type CreateKind int

const (
	CreateOK CreateKind = iota
	CreateErr
	CreateNilEnt
	CreateNilFile
)

func validCreateName(name string) bool {
	return !(name == "" || name == "." || name == ".." || strings.ContainsAny(name, "/\\"))
}

// CreateOutcome says how the FS answers Create(name) in dir.
func CreateOutcome(dir *Node, name string) CreateKind {
	switch {
	case !dir.Dir || dir.Removed:
		return CreateErr
	case !validCreateName(name):
		return CreateErr
	case dir.Kids[name] != nil:
		return CreateErr
	case strings.HasPrefix(name, "cfail"):
		return CreateErr
	case strings.HasPrefix(name, "nilent"):
		return CreateNilEnt
	case strings.HasPrefix(name, "nilfile"):
		return CreateNilFile
	}
	return CreateOK
}

type Simple int

const (
	OK Simple = iota
	Err
	Nil
)

func OpenOutcome(n *Node) Simple {
	switch {
	case strings.HasPrefix(n.Name, "ofail"):
		return Err
	case strings.HasPrefix(n.Name, "onil"):
		return Nil
	}
	return OK
}

func OpenDirOutcome(n *Node) Simple {
	// A nil iterator with a nil error is not among the behaviours exercised: the
	// session cannot tell a typed-nil func from a valid one, and the property speaks of
	// file systems that answer with results or errors.
	if strings.HasPrefix(n.Name, "odfail") {
		return Err
	}
	return OK
}

func ClunkFails(n *Node) bool { return strings.HasPrefix(n.Name, "kfail") }
func StatFails(n *Node) bool  { return strings.HasPrefix(n.Name, "sfail") }
func IOFails(n *Node) bool    { return strings.HasPrefix(n.Name, "iofail") }

// RemoveOutcome: does Remove return an error, and does it detach the node?
func RemoveOutcome(n *Node) (fails bool, detaches bool) {
	switch {
	case n.Parent == nil || n.Parent == n:
		return true, false // the root
	case strings.HasPrefix(n.Name, "rfail"):
		return true, false
	case n.Removed:
		return true, false
	case n.Dir && len(n.Kids) > 0:
		return true, false
	}
	return false, true
}

// NewTree builds the standard tree used by the session workloads.
func NewTree() (*Node, *uint64) {
	id := new(uint64)
	mk := func(parent *Node, name string, dir bool) *Node {
		*id++
		n := &Node{ID: *id, Name: name, Dir: dir, Parent: parent}
		if dir {
			n.Kids = map[string]*Node{}
		}
		if parent != nil {
			parent.Kids[name] = n
		}
		return n
	}
	root := mk(nil, "/", true)
	mk(root, "a", false)
	mk(root, "b", false)
	d := mk(root, "d", true)
	mk(d, "e", false)
	mk(d, "f", false)
	g := mk(d, "g", true)
	mk(g, "h", false)
	for _, n := range []string{"ofailf1", "ofail1", "kfail1", "rfail1", "iofail1", "sfail1", "onil1", "wfail1", "wnil1"} {
		mk(root, n, false)
	}
	for _, n := range []string{"odfail1", "odnil1", "kfaildir", "dappend", "dtmp", "dexcl"} {
		mk(root, n, true)
	}
	// a chain deeper than the 16 names one Twalk can carry: /p1/p2/.../p20
	cur := root
	for i := 1; i <= 20; i++ {
		cur = mk(cur, fmt.Sprintf("p%d", i), true)
	}
	return root, id
}
