// Package gen holds the seeded, boundary-dense generators for 9P2000 messages.
package gen

import (
	"math/rand"
	"time"

	p9p "github.com/frobnitzem/go-p9p"
)

type G struct {
	R *rand.Rand
	// MaxStr / MaxData / MaxList bound the variable-length parts (so that callers can
	// keep whole messages within a frame budget).
	MaxStr  int
	MaxData int
	MaxList int
}

func New(r *rand.Rand) *G { return &G{R: r, MaxStr: 65535, MaxData: 1 << 20, MaxList: 65535} }

// Small returns a generator whose messages stay below roughly 2 KiB.
func Small(r *rand.Rand) *G { return &G{R: r, MaxStr: 300, MaxData: 1200, MaxList: 20} }

func (g *G) pick(n int) int { return g.R.Intn(n) }

func (g *G) U8() uint8 {
	switch g.pick(6) {
	case 0:
		return 0
	case 1:
		return 1
	case 2:
		return 0x7F
	case 3:
		return 0x80
	case 4:
		return 0xFF
	}
	return uint8(g.R.Intn(256))
}

func (g *G) U16() uint16 {
	switch g.pick(8) {
	case 0:
		return 0
	case 1:
		return 1
	case 2:
		return 0x00FF
	case 3:
		return 0x0100
	case 4:
		return 0x7FFF
	case 5:
		return 0xFFFE
	case 6:
		return 0xFFFF
	}
	return uint16(g.R.Intn(1 << 16))
}

func (g *G) U32() uint32 {
	switch g.pick(10) {
	case 0:
		return 0
	case 1:
		return 1
	case 2:
		return 0xFFFF
	case 3:
		return 0x10000
	case 4:
		return 0x7FFFFFFF
	case 5:
		return 0x80000000
	case 6:
		return 0xFFFFFFFE
	case 7:
		return 0xFFFFFFFF
	}
	return g.R.Uint32()
}

func (g *G) U64() uint64 {
	switch g.pick(10) {
	case 0:
		return 0
	case 1:
		return 1
	case 2:
		return 0xFFFFFFFF
	case 3:
		return 0x100000000
	case 4:
		return 0x7FFFFFFFFFFFFFFF
	case 5:
		return 0x8000000000000000
	case 6:
		return 0xFFFFFFFFFFFFFFFF
	}
	return g.R.Uint64()
}

// Distinct32 returns two different boundary-dense 32-bit values.
func (g *G) Distinct32() (uint32, uint32) {
	a := g.U32()
	b := g.U32()
	for a == b {
		b = g.R.Uint32()
	}
	return a, b
}

func (g *G) Tag() p9p.Tag {
	switch g.pick(7) {
	case 0:
		return 0
	case 1:
		return 1
	case 2:
		return 0x00FF
	case 3:
		return 0x0100
	case 4:
		return 0xFFFE
	case 5:
		return p9p.NOTAG
	}
	return p9p.Tag(g.R.Intn(1 << 16))
}

func (g *G) strLen() int {
	var n int
	switch g.pick(12) {
	case 0:
		n = 0
	case 1:
		n = 1
	case 2:
		n = 255
	case 3:
		n = 256
	case 4:
		n = 65535
	case 5:
		n = 4000
	default:
		n = g.R.Intn(24)
	}
	if n > g.MaxStr {
		n = g.MaxStr
	}
	return n
}

// Str returns a string of boundary-dense length with arbitrary bytes (non-UTF-8, NUL).
func (g *G) Str() string { return g.StrN(g.strLen()) }

func (g *G) StrN(n int) string {
	b := make([]byte, n)
	mode := g.pick(3)
	for i := range b {
		switch mode {
		case 0:
			b[i] = byte('a' + g.R.Intn(26))
		case 1:
			b[i] = byte(g.R.Intn(256))
		default:
			b[i] = []byte{0, 0xFF, 0xC3, '/', 'x', 0x80, '.', 'k'}[g.R.Intn(8)]
		}
	}
	return string(b)
}

// Strs returns n pairwise different strings (so that a swap of two string fields shows).
func (g *G) Strs(n int) []string {
	out := make([]string, n)
	seen := map[string]bool{}
	for i := range out {
		s := g.Str()
		for seen[s] {
			s += string(rune('A' + i))
			if len(s) > 65535 {
				s = s[len(s)-65535:]
				s = string(rune('a'+i)) + s[1:]
			}
		}
		seen[s] = true
		out[i] = s
	}
	return out
}

func (g *G) Data() []byte {
	var n int
	switch g.pick(12) {
	case 0:
		n = 0
	case 1:
		n = 1
	case 2:
		n = 4095
	case 3:
		n = 65536
	case 4:
		n = 1 << 20
	case 5:
		n = 8192
	default:
		n = g.R.Intn(64)
	}
	if n > g.MaxData {
		n = g.MaxData
	}
	return g.DataN(n)
}

func (g *G) DataN(n int) []byte {
	b := make([]byte, n)
	seed := byte(g.R.Intn(256))
	for i := range b {
		b[i] = seed + byte(i*7)
	}
	return b
}

func (g *G) listLen() int {
	var n int
	switch g.pick(12) {
	case 0:
		n = 0
	case 1:
		n = 1
	case 2:
		n = 16
	case 3:
		n = 17
	case 4:
		n = 255
	case 5:
		n = 256
	case 6:
		n = 65535
	default:
		n = g.R.Intn(6)
	}
	if n > g.MaxList {
		n = g.MaxList
	}
	return n
}

func (g *G) Qid() p9p.Qid {
	return p9p.Qid{Type: p9p.QType(g.U8()), Version: g.U32(), Path: g.U64()}
}

func (g *G) Time() time.Time {
	return time.Unix(int64(g.U32()), 0).UTC()
}

// Dir returns a stat record whose every field is independently extreme; the total
// encoded size stays representable (<= 65535).
func (g *G) Dir() p9p.Dir {
	var d p9p.Dir
	d.Type = g.U16()
	d.Dev = g.U32()
	d.Qid = g.Qid()
	d.Mode = g.U32()
	for d.Mode == d.Dev {
		d.Mode = g.R.Uint32()
	}
	d.AccessTime = g.Time()
	d.ModTime = g.Time()
	for d.ModTime.Equal(d.AccessTime) {
		d.ModTime = time.Unix(int64(g.R.Uint32()), 0).UTC()
	}
	d.Length = g.U64()
	// strings: keep the total within 65535 - 2 - 39 - 8
	budget := 65535 - 2 - 39 - 8
	if g.MaxStr*4 < budget {
		budget = g.MaxStr * 4
	}
	if g.pick(6) == 0 {
		// exactly maximal record
		ss := []int{0, 0, 0, 0}
		rem := budget
		for i := 0; i < 3; i++ {
			ss[i] = g.R.Intn(rem + 1)
			if g.pick(3) == 0 {
				ss[i] = 0
			}
			rem -= ss[i]
		}
		ss[3] = rem
		g.R.Shuffle(4, func(i, j int) { ss[i], ss[j] = ss[j], ss[i] })
		d.Name, d.UID, d.GID, d.MUID = g.StrN(ss[0]), g.StrN(ss[1]), g.StrN(ss[2]), g.StrN(ss[3])
	} else {
		s := g.Strs(4)
		tot := 0
		for i := range s {
			if tot+len(s[i]) > budget {
				s[i] = s[i][:budget-tot]
			}
			tot += len(s[i])
		}
		d.Name, d.UID, d.GID, d.MUID = s[0], s[1], s[2], s[3]
	}
	return d
}

// SmallDir returns a stat record with short strings.
func (g *G) SmallDir() p9p.Dir {
	save := g.MaxStr
	if g.MaxStr > 40 {
		g.MaxStr = 40
	}
	d := g.Dir()
	g.MaxStr = save
	return d
}

func (g *G) names() []string {
	n := g.listLen()
	out := make([]string, n)
	short := n > 64
	for i := range out {
		if short {
			out[i] = g.StrN(g.R.Intn(3))
		} else {
			out[i] = g.Str()
		}
	}
	return out
}

func (g *G) qids() []p9p.Qid {
	n := g.listLen()
	if n > 5041 { // 65535/13
		// still representable by count, but make the common case cheaper
	}
	out := make([]p9p.Qid, n)
	for i := range out {
		out[i] = g.Qid()
	}
	return out
}

// Version strings for negotiation workloads.
func (g *G) Version() string {
	switch g.pick(5) {
	case 0:
		return "9P2000"
	case 1:
		return "9P2000.u"
	case 2:
		return "unknown"
	case 3:
		return ""
	}
	return g.Str()
}

// Kinds are the 27 message type numbers.
var Kinds = []p9p.FcallType{p9p.Tversion, p9p.Rversion, p9p.Tauth, p9p.Rauth, p9p.Tattach, p9p.Rattach,
	p9p.Rerror, p9p.Tflush, p9p.Rflush, p9p.Twalk, p9p.Rwalk, p9p.Topen, p9p.Ropen, p9p.Tcreate, p9p.Rcreate,
	p9p.Tread, p9p.Rread, p9p.Twrite, p9p.Rwrite, p9p.Tclunk, p9p.Rclunk, p9p.Tremove, p9p.Rremove,
	p9p.Tstat, p9p.Rstat, p9p.Twstat, p9p.Rwstat}

// Msg generates a message of the given kind (by wire type number).
func (g *G) Msg(kind p9p.FcallType) p9p.Message {
	switch kind {
	case p9p.Tversion:
		return p9p.MessageTversion{MSize: g.U32(), Version: g.Version()}
	case p9p.Rversion:
		return p9p.MessageRversion{MSize: g.U32(), Version: g.Version()}
	case p9p.Tauth:
		s := g.Strs(2)
		return p9p.MessageTauth{Afid: p9p.Fid(g.U32()), Uname: s[0], Aname: s[1]}
	case p9p.Rauth:
		return p9p.MessageRauth{Qid: g.Qid()}
	case p9p.Tattach:
		a, b := g.Distinct32()
		s := g.Strs(2)
		return p9p.MessageTattach{Fid: p9p.Fid(a), Afid: p9p.Fid(b), Uname: s[0], Aname: s[1]}
	case p9p.Rattach:
		return p9p.MessageRattach{Qid: g.Qid()}
	case p9p.Rerror:
		return p9p.MessageRerror{Ename: g.Str()}
	case p9p.Tflush:
		return p9p.MessageTflush{Oldtag: g.Tag()}
	case p9p.Rflush:
		return p9p.MessageRflush{}
	case p9p.Twalk:
		a, b := g.Distinct32()
		return p9p.MessageTwalk{Fid: p9p.Fid(a), Newfid: p9p.Fid(b), Wnames: g.names()}
	case p9p.Rwalk:
		return p9p.MessageRwalk{Qids: g.qids()}
	case p9p.Topen:
		return p9p.MessageTopen{Fid: p9p.Fid(g.U32()), Mode: p9p.Flag(g.U8())}
	case p9p.Ropen:
		return p9p.MessageRopen{Qid: g.Qid(), IOUnit: g.U32()}
	case p9p.Tcreate:
		a, b := g.Distinct32()
		return p9p.MessageTcreate{Fid: p9p.Fid(a), Name: g.Str(), Perm: b, Mode: p9p.Flag(g.U8())}
	case p9p.Rcreate:
		return p9p.MessageRcreate{Qid: g.Qid(), IOUnit: g.U32()}
	case p9p.Tread:
		return p9p.MessageTread{Fid: p9p.Fid(g.U32()), Offset: g.U64(), Count: g.U32()}
	case p9p.Rread:
		return p9p.MessageRread{Data: g.Data()}
	case p9p.Twrite:
		return p9p.MessageTwrite{Fid: p9p.Fid(g.U32()), Offset: g.U64(), Data: g.Data()}
	case p9p.Rwrite:
		return p9p.MessageRwrite{Count: g.U32()}
	case p9p.Tclunk:
		return p9p.MessageTclunk{Fid: p9p.Fid(g.U32())}
	case p9p.Rclunk:
		return p9p.MessageRclunk{}
	case p9p.Tremove:
		return p9p.MessageTremove{Fid: p9p.Fid(g.U32())}
	case p9p.Rremove:
		return p9p.MessageRremove{}
	case p9p.Tstat:
		return p9p.MessageTstat{Fid: p9p.Fid(g.U32())}
	case p9p.Rstat:
		return p9p.MessageRstat{Stat: g.Dir()}
	case p9p.Twstat:
		return p9p.MessageTwstat{Fid: p9p.Fid(g.U32()), Stat: g.Dir()}
	case p9p.Rwstat:
		return p9p.MessageRwstat{}
	}
	panic("gen: unknown kind")
}

func (g *G) Fcall(kind p9p.FcallType) *p9p.Fcall {
	m := g.Msg(kind)
	return &p9p.Fcall{Type: kind, Tag: g.Tag(), Message: m}
}

func (g *G) AnyFcall() *p9p.Fcall { return g.Fcall(Kinds[g.R.Intn(len(Kinds))]) }
