package mon

import (
	"regexp"
	"runtime"
	"sort"
	"strings"
	"time"
)

// Quiescence-based hang detection (DESIGN.md section 3.6).
//
// AwaitQuiesce waits until done is closed (returns true) or until the process has
// become quiescent without done being closed (returns false and the goroutine dump).
// "Quiescent" means: every goroutine other than the caller is parked in a state from
// which only another goroutine of this process could wake it (channel op, select,
// mutex, cond, waitgroup), in two samples taken >= settle apart with identical
// (goroutine id, state, top frames) signatures. All harness connections are in-memory
// with virtual deadlines and the harness uses no timers, so a quiescent process cannot
// make progress on its own: what has not returned will never return. The verdict does
// not depend on how long anything took, only on goroutine states.
//
// A generous wall-clock watchdog bounds the wait; if it fires while the process is not
// quiescent the result is (false, "", true): inconclusive, never a violation.
type QuiesceResult struct {
	Done         bool   // the awaited event happened
	Hung         bool   // quiescent without the event: a genuine hang
	Inconclusive bool   // watchdog fired while goroutines were still runnable
	Dump         string // goroutine dump at the moment of the verdict (Hung / Inconclusive)
	Sites        string // canonical blocked-site signature (Hung)
}

var Settle = 60 * time.Millisecond
var Watchdog = 60 * time.Second

func AwaitQuiesce(done <-chan struct{}) QuiesceResult {
	start := time.Now()
	pause := 50 * time.Microsecond
	var prevSig string
	var prevAt time.Time
	for {
		select {
		case <-done:
			return QuiesceResult{Done: true}
		default:
		}
		// cheap polling first: most operations complete within microseconds
		if time.Since(start) < 2*time.Millisecond {
			runtime.Gosched()
			continue
		}
		t := time.NewTimer(pause)
		select {
		case <-done:
			t.Stop()
			return QuiesceResult{Done: true}
		case <-t.C:
		}
		if pause < 5*time.Millisecond {
			pause *= 2
		}
		if time.Since(start) < 10*time.Millisecond {
			continue
		}
		dump := stacks()
		quiet, sig := classify(dump)
		now := time.Now()
		if quiet {
			if sig == prevSig && now.Sub(prevAt) >= Settle {
				select {
				case <-done:
					return QuiesceResult{Done: true}
				default:
				}
				return QuiesceResult{Hung: true, Dump: dump, Sites: blockedSites(dump)}
			}
			if sig != prevSig {
				prevSig, prevAt = sig, now
			}
		} else {
			prevSig = ""
		}
		if now.Sub(start) > Watchdog {
			return QuiesceResult{Inconclusive: true, Dump: dump}
		}
	}
}

// Quiet reports once whether the process is quiescent right now (two identical
// samples Settle apart). Used to wait for "everything that can happen has happened"
// before the driver applies the next stimulus.
func WaitQuiet() (ok bool, dump string) {
	r := AwaitQuiesce(make(chan struct{}))
	return r.Hung, r.Dump
}

func stacks() string {
	n := 1 << 16
	for {
		buf := make([]byte, n)
		m := runtime.Stack(buf, true)
		if m < n {
			return string(buf[:m])
		}
		n *= 2
	}
}

var hdrRe = regexp.MustCompile(`^goroutine (\d+) \[([^\]]*)\]:`)

var parked = []string{
	"chan receive", "chan send", "select", "sync.Mutex.Lock", "sync.RWMutex.RLock",
	"sync.RWMutex.Lock", "sync.WaitGroup.Wait", "sync.Cond.Wait", "semacquire",
}

// classify parses a full goroutine dump; the first goroutine is the caller and is
// skipped. Returns whether all others are parked, and a signature of their states.
func classify(dump string) (bool, string) {
	blocks := strings.Split(dump, "\n\n")
	quiet := true
	var sigs []string
	for i, b := range blocks {
		if i == 0 {
			continue
		}
		b = strings.TrimSpace(b)
		if b == "" {
			continue
		}
		lines := strings.Split(b, "\n")
		m := hdrRe.FindStringSubmatch(lines[0])
		if m == nil {
			continue
		}
		state := m[2]
		if j := strings.Index(state, ","); j >= 0 { // ", 2 minutes", ", locked to thread"
			state = state[:j]
		}
		ok := false
		for _, p := range parked {
			if state == p || strings.HasPrefix(state, p+" ") {
				ok = true
				break
			}
		}
		// a select with a timer case or a receive from a timer channel is still
		// "parked" by state; the harness and the library paths driven by it have no
		// such waits except the ones listed in DESIGN 3.6.
		top := ""
		if len(lines) > 1 {
			top = strings.TrimSpace(lines[1])
			if k := strings.Index(top, "("); k > 0 {
				top = top[:k]
			}
		}
		// "semacquire" is also the wait reason of runtime-internal semaphores (e.g. a
		// goroutine about to start a GC cycle waits for worldsema, which the snapshot
		// itself holds while it stops the world). Only a semaphore wait entered through
		// package sync is a wait for another goroutine.
		if state == "semacquire" && !strings.HasPrefix(top, "sync.") {
			ok = false
		}
		if !ok {
			quiet = false
		}
		sigs = append(sigs, m[1]+":"+state+":"+top)
	}
	sort.Strings(sigs)
	return quiet, strings.Join(sigs, "|")
}

var frameRe = regexp.MustCompile(`^\s+(\S+\.go):(\d+)`)

// blockedSites extracts, for every parked goroutine, the innermost frame that lies in
// the repository under test (function name, no line numbers), sorted and de-duplicated
// with multiplicity dropped. This is the signature a hang is known by.
func blockedSites(dump string) string {
	blocks := strings.Split(dump, "\n\n")
	set := map[string]bool{}
	for i, b := range blocks {
		if i == 0 {
			continue
		}
		lines := strings.Split(b, "\n")
		for j := 1; j+1 < len(lines); j += 2 {
			fn := strings.TrimSpace(lines[j])
			if !strings.Contains(fn, "frobnitzem/go-p9p") {
				continue
			}
			if k := strings.LastIndex(fn, "("); k > 0 {
				fn = fn[:k]
			}
			fn = strings.TrimPrefix(fn, "github.com/frobnitzem/go-p9p")
			fn = strings.TrimPrefix(fn, ".")
			fn = strings.TrimPrefix(fn, "/")
			set[fn] = true
			break
		}
	}
	var out []string
	for k := range set {
		out = append(out, k)
	}
	sort.Strings(out)
	return strings.Join(out, ",")
}

// TrimDump shortens a goroutine dump for inclusion in messages/replay files.
func TrimDump(d string, max int) string {
	if len(d) <= max {
		return d
	}
	return d[:max] + "\n...[truncated]"
}

// QuietNow takes one stop-the-world snapshot and reports whether every goroutine other
// than the caller is parked, and how many of them wait for a mutex. A single quiet
// snapshot is already conclusive when no timers or external events are in play; it is
// used by schedule controllers that must decide "everybody who can run has run" many
// times per case. Verdicts (hangs) are always confirmed with AwaitQuiesce.
func QuietNow() (quiet bool, mutexWaiters int) {
	d := stacks()
	q, sig := classify(d)
	if q {
		LastQuietDump = d
	}
	return q, strings.Count(sig, ":sync.Mutex.Lock:")
}

// Stacks returns the full goroutine dump (diagnostics).
func Stacks() string { return stacks() }

// LastQuietDump is the dump on which the most recent positive QuietNow verdict was based (diagnostics).
var LastQuietDump string

// AwaitQuiesceLong is AwaitQuiesce for workloads that legitimately run longer than the
// watchdog: an inconclusive result (watchdog fired while goroutines were still runnable)
// is retried until max has elapsed. Hangs are still detected from goroutine states.
func AwaitQuiesceLong(done <-chan struct{}, max time.Duration) QuiesceResult {
	start := time.Now()
	for {
		q := AwaitQuiesce(done)
		if !q.Inconclusive || time.Since(start) > max {
			return q
		}
	}
}
