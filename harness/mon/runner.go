package mon

import (
	"bufio"
	"encoding/json"
	"fmt"
	"os"
	"os/exec"
	"path/filepath"
	"regexp"
	"runtime"
	"sort"
	"strings"
	"sync"
	"syscall"
	"time"
)

// Spec describes one property check to the parent-side runner.
type Spec struct {
	ID          string
	Level       string // exploration | fault_enumeration | ...
	Rule        string // how cases are generated and what counts as non-trivial / distinct
	Assumptions []string
	Race        bool     // run the workers from the -race binary and treat race reports as observations
	RaceFiles   []string // a race report is a violation of THIS property iff one of its stacks has a frame in one of these repo files
	Shards      func(tier string) int
	Timeout     func(tier string) time.Duration // per worker wall-clock watchdog (inconclusive when it fires)
	MinEvals    int64                           // fewer evaluations than this = "observed nothing"
	MemLimitMB  int                             // RLIMIT_AS for non-race workers (0 = none): turns a runaway allocation into an attributable crash
	// Required counters: the run fails as "observed nothing" when one of them is 0.
	Required []string
	Run      func(w *W)
	// Post lets a property derive verdicts that need the merged picture.
	Post func(m *Merged)
}

// Merged is the aggregated picture of all shards.
type Merged struct {
	Spec         *Spec
	Tier         string
	Seed         int64
	Evaluations  int64
	Nontrivial   map[uint64]struct{}
	Counters     map[string]int64
	Maxima       map[string]int64
	Samples      []interface{}
	Violations   []Violation
	Inconclusive []string
	Notes        []string
	Exhaustive   *bool
	RaceReports  map[string]int // signature -> count (all reports, whichever file)
}

func (m *Merged) Violate(kind, sig, msg string, replay interface{}) {
	for _, v := range m.Violations {
		if v.Sig == sig {
			return
		}
	}
	m.Violations = append(m.Violations, Violation{Prop: m.Spec.ID, Kind: kind, Sig: sig, Msg: msg, Replay: replay})
}

// RunParent forks the shards, collects their results, decides and writes evidence.
// exe is the worker binary to use (the race build when spec.Race).
func RunParent(spec *Spec, exe, tier string, seed int64, verifDir string) int {
	start := time.Now()
	n := 8
	if spec.Shards != nil {
		n = spec.Shards(tier)
	}
	timeout := 10 * time.Minute
	if spec.Timeout != nil {
		timeout = spec.Timeout(tier)
	}
	work := filepath.Join(verifDir, ".work", fmt.Sprintf("%s-%s-%d-%d", spec.ID, tier, seed, os.Getpid()))
	os.RemoveAll(work)
	if err := os.MkdirAll(work, 0755); err != nil {
		fmt.Fprintln(os.Stderr, "cannot create work dir:", err)
		return 2
	}
	defer os.RemoveAll(work)

	m := &Merged{Spec: spec, Tier: tier, Seed: seed, Nontrivial: map[uint64]struct{}{},
		Counters: map[string]int64{}, Maxima: map[string]int64{}, RaceReports: map[string]int{}}

	par := runtime.NumCPU()
	if par > 16 {
		par = 16
	}
	sem := make(chan struct{}, par)
	var wg sync.WaitGroup
	var mu sync.Mutex
	for i := 0; i < n; i++ {
		wg.Add(1)
		go func(i int) {
			defer wg.Done()
			sem <- struct{}{}
			defer func() { <-sem }()
			for attempt := 0; attempt < 2; attempt++ {
				st := runShard(spec, exe, tier, seed, i, n, work, timeout)
				mu.Lock()
				retry := mergeShard(m, spec, i, work, st, attempt)
				mu.Unlock()
				if !retry {
					break
				}
			}
		}(i)
	}
	wg.Wait()

	if spec.Post != nil {
		spec.Post(m)
	}

	// observed-nothing rules
	nothing := ""
	if m.Evaluations < spec.MinEvals || m.Evaluations == 0 {
		nothing = fmt.Sprintf("only %d evaluations (minimum %d)", m.Evaluations, spec.MinEvals)
	}
	for _, k := range spec.Required {
		if m.Counters[k] == 0 {
			nothing += fmt.Sprintf(" required observation %q never made;", k)
		}
	}

	known, fixed := LoadKnown(filepath.Join(verifDir, "KNOWN_FINDINGS"))
	_ = fixed
	var unlisted []Violation
	var listed []string
	for _, v := range m.Violations {
		if k := matchKnown(known, v); k != nil {
			listed = append(listed, fmt.Sprintf("KNOWN-FINDING: property=%s %s", v.Prop, k.What))
		} else {
			unlisted = append(unlisted, v)
		}
	}
	sort.Strings(listed)
	listed = uniq(listed)

	wall := time.Since(start).Seconds()
	outDir := verifDir
	if o := os.Getenv("VERIF_OUT_DIR"); o != "" {
		outDir = o // self-test runs against mutants must not clobber the real evidence
	}
	writeEvidence(outDir, m, wall, len(unlisted), listed, nothing)

	fmt.Printf("%s %s seed=%d: evaluations=%d distinct_nontrivial=%d violations=%d known=%d inconclusive=%d wall=%.1fs\n",
		spec.ID, tier, seed, m.Evaluations, len(m.Nontrivial), len(unlisted), len(listed), len(m.Inconclusive), wall)
	for _, l := range listed {
		fmt.Println(l)
	}
	if len(unlisted) > 0 {
		os.MkdirAll(filepath.Join(outDir, "replays"), 0755)
		for i, v := range unlisted {
			p := filepath.Join(outDir, "replays", fmt.Sprintf("%s-%s-%016x.json", spec.ID, v.Kind, hashStr(v.Sig)))
			b, _ := json.MarshalIndent(map[string]interface{}{"violation": v, "tier": tier, "seed": seed,
				"rerun": fmt.Sprintf("VERIF_SEED=%d /verif/run.sh %s %s", seed, spec.ID, tier)}, "", " ")
			os.WriteFile(p, b, 0644)
			if i < 10 {
				fmt.Printf("  [%s] %s\n      case: %s\n", v.Kind, oneLine(v.Msg, 600), oneLine(v.Case, 300))
			}
			fmt.Printf("VIOLATION property=%s replay=%s\n", spec.ID, p)
		}
		return 1
	}
	if nothing != "" {
		fmt.Printf("INCONCLUSIVE property=%s observed nothing: %s\n", spec.ID, nothing)
		for _, s := range m.Inconclusive {
			fmt.Println("  inconclusive:", oneLine(s, 400))
		}
		return 2
	}
	return 0
}

func oneLine(s string, max int) string {
	s = strings.ReplaceAll(s, "\n", " | ")
	if len(s) > max {
		s = s[:max] + "..."
	}
	return s
}

func uniq(s []string) []string {
	var o []string
	for i, x := range s {
		if i == 0 || x != s[i-1] {
			o = append(o, x)
		}
	}
	return o
}

type shardStatus struct {
	exitErr  error
	timedOut bool
	stderr   string
}

func runShard(spec *Spec, exe, tier string, seed int64, shard, n int, work string, timeout time.Duration) shardStatus {
	os.Remove(fmt.Sprintf("%s/shard-%d.result", work, shard))
	errPath := fmt.Sprintf("%s/shard-%d.err", work, shard)
	ef, _ := os.Create(errPath)
	defer ef.Close()
	cmd := exec.Command(exe, "-worker", "-prop", spec.ID, "-tier", tier, "-seed", fmt.Sprint(seed),
		"-shard", fmt.Sprint(shard), "-nshards", fmt.Sprint(n), "-dir", work)
	cmd.Stdout = ef
	cmd.Stderr = ef
	cmd.Env = append(os.Environ(), "GOTRACEBACK=all")
	if spec.Race {
		cmd.Env = append(cmd.Env, fmt.Sprintf("GORACE=halt_on_error=0 history_size=3 log_path=%s/race-%d", work, shard))
		if g := shardProcs(tier, shard); g != "" {
			cmd.Env = append(cmd.Env, "GOMAXPROCS="+g)
		}
	}
	cmd.SysProcAttr = &syscall.SysProcAttr{Setpgid: true}
	if err := cmd.Start(); err != nil {
		return shardStatus{exitErr: err}
	}
	done := make(chan error, 1)
	go func() { done <- cmd.Wait() }()
	var st shardStatus
	select {
	case err := <-done:
		st.exitErr = err
	case <-time.After(timeout):
		st.timedOut = true
		cmd.Process.Signal(syscall.SIGQUIT)
		select {
		case <-done:
		case <-time.After(10 * time.Second):
			syscall.Kill(-cmd.Process.Pid, syscall.SIGKILL)
			<-done
		}
	}
	// make sure no grandchildren survive
	syscall.Kill(-cmd.Process.Pid, syscall.SIGKILL)
	b, _ := os.ReadFile(errPath)
	st.stderr = string(b)
	return st
}

var panicRe = regexp.MustCompile(`(?m)^(panic: .*|fatal error: .*)$`)

func mergeShard(m *Merged, spec *Spec, shard int, work string, st shardStatus, attempt int) (retry bool) {
	var res Result
	b, err := os.ReadFile(fmt.Sprintf("%s/shard-%d.result", work, shard))
	haveResult := err == nil && json.Unmarshal(b, &res) == nil && res.Done
	lastCase := ""
	if cb, err := os.ReadFile(fmt.Sprintf("%s/shard-%d.case", work, shard)); err == nil {
		lastCase = strings.TrimSpace(string(cb))
	}
	if st.timedOut {
		if attempt == 0 {
			return true
		}
		m.Inconclusive = append(m.Inconclusive, fmt.Sprintf("shard %d: wall-clock watchdog fired (case %s)", shard, oneLine(lastCase, 200)))
		m.Counters["inconclusive"]++
		return false
	}
	if !haveResult {
		// the worker died: a crash observation attributed to the last logged case
		first := "worker exited without a result"
		if mm := panicRe.FindString(st.stderr); mm != "" {
			first = mm
		}
		site := crashSite(st.stderr)
		sig := "crash:" + normalisePanic(first) + "@" + site
		tail := st.stderr
		if len(tail) > 6000 {
			tail = tail[:6000]
		}
		m.Violations = append(m.Violations, Violation{Prop: spec.ID, Kind: "crash", Sig: sig,
			Msg:  fmt.Sprintf("worker process died (%v): %s at %s", st.exitErr, first, site),
			Case: lastCase, Replay: map[string]interface{}{"stderr": tail, "last_case": lastCase, "shard": shard}})
		m.Counters["worker_crashes"]++
		return false
	}
	m.Evaluations += res.Evaluations
	for _, h := range res.Nontrivial {
		m.Nontrivial[h] = struct{}{}
	}
	for k, v := range res.Counters {
		m.Counters[k] += v
	}
	for k, v := range res.Maxima {
		if v > m.Maxima[k] {
			m.Maxima[k] = v
		}
	}
	for _, s := range res.Samples {
		if len(m.Samples) < 8 {
			m.Samples = append(m.Samples, s)
		}
	}
	for _, v := range res.Violations {
		dup := false
		for _, o := range m.Violations {
			if o.Sig == v.Sig {
				dup = true
				break
			}
		}
		if !dup {
			m.Violations = append(m.Violations, v)
		}
	}
	m.Inconclusive = append(m.Inconclusive, res.Inconclusive...)
	m.Notes = append(m.Notes, res.Notes...)
	if res.Exhaustive != nil {
		if m.Exhaustive == nil {
			v := *res.Exhaustive
			m.Exhaustive = &v
		} else if !*res.Exhaustive {
			*m.Exhaustive = false
		}
	}
	if spec.Race {
		files, _ := filepath.Glob(fmt.Sprintf("%s/race-%d.*", work, shard))
		for _, f := range files {
			rb, _ := os.ReadFile(f)
			for _, rep := range ParseRaceLog(string(rb)) {
				m.RaceReports[rep.Sig]++
				m.Counters["race_reports"]++
				if rep.HarnessOnly() {
					m.Notes = append(m.Notes, "race report whose both accesses are made by harness code (harness defect, not judged): "+rep.Sig)
					m.Counters["harness_race_reports"]++
				} else if rep.InFiles(spec.RaceFiles) {
					dup := false
					for _, o := range m.Violations {
						if o.Sig == rep.Sig {
							dup = true
						}
					}
					if !dup {
						m.Violations = append(m.Violations, Violation{Prop: spec.ID, Kind: "race", Sig: rep.Sig,
							Msg: "data race reported by the Go race detector: " + rep.Sig, Case: lastCase,
							Replay: map[string]interface{}{"report": TrimDump(rep.Text, 6000)}})
					}
				}
			}
			os.Remove(f)
		}
	}
	return false
}

func normalisePanic(s string) string {
	// strip run-specific numbers (indices, lengths, addresses)
	s = regexp.MustCompile(`0x[0-9a-f]+`).ReplaceAllString(s, "N")
	s = regexp.MustCompile(`-?\d+`).ReplaceAllString(s, "N")
	return s
}

var goFrameRe = regexp.MustCompile(`^(github\.com/frobnitzem/go-p9p\S*)\([^()]*\)$`)

// crashSite returns the innermost function of the repository on the panicking stack.
func crashSite(stderr string) string {
	sc := bufio.NewScanner(strings.NewReader(stderr))
	sc.Buffer(make([]byte, 1<<20), 1<<20)
	seenPanic := false
	for sc.Scan() {
		l := sc.Text()
		if strings.HasPrefix(l, "panic:") || strings.HasPrefix(l, "fatal error:") {
			seenPanic = true
			continue
		}
		if !seenPanic {
			continue
		}
		if mm := goFrameRe.FindStringSubmatch(strings.TrimSpace(l)); mm != nil {
			return strings.TrimPrefix(mm[1], "github.com/frobnitzem/go-p9p")
		}
	}
	return "?"
}

// ---------------------------------------------------------------- race logs

type RaceReport struct {
	Text   string
	Frames [][]string // per stack: function@file (repo and harness frames only), innermost first
	Sig    string
}

var raceFnRe = regexp.MustCompile(`^  (\S+)\(`)
var raceFileRe = regexp.MustCompile(`^      (\S+\.go):\d+`)

func ParseRaceLog(s string) []RaceReport {
	var out []RaceReport
	parts := strings.Split(s, "==================")
	for _, p := range parts {
		if !strings.Contains(p, "WARNING: DATA RACE") {
			continue
		}
		r := RaceReport{Text: p}
		var cur []string
		inAccess := false
		lines := strings.Split(p, "\n")
		flush := func() {
			if inAccess {
				r.Frames = append(r.Frames, cur)
			}
			cur = nil
		}
		for i := 0; i < len(lines); i++ {
			l := lines[i]
			if strings.HasPrefix(l, "Read at") || strings.HasPrefix(l, "Write at") ||
				strings.HasPrefix(l, "Previous read at") || strings.HasPrefix(l, "Previous write at") ||
				strings.HasPrefix(l, "Atomic") || strings.HasPrefix(l, "Previous atomic") {
				flush()
				inAccess = true
				continue
			}
			if strings.HasPrefix(l, "Goroutine ") {
				flush()
				inAccess = false
				continue
			}
			if inAccess {
				if mm := raceFnRe.FindStringSubmatch(l); mm != nil && i+1 < len(lines) {
					if fm := raceFileRe.FindStringSubmatch(lines[i+1]); fm != nil {
						if strings.HasPrefix(mm[1], "verifharness/") || strings.Contains(mm[1], "frobnitzem/go-p9p") {
							cur = append(cur, mm[1]+"@"+fm[1])
						}
					}
				}
			}
		}
		flush()
		// signature: innermost repo frame of each of the two accesses, sorted
		var inner []string
		for _, st := range r.Frames {
			f := "?"
			for _, fr := range st {
				if strings.Contains(fr, "frobnitzem/go-p9p") {
					f = fr[:strings.Index(fr, "@")]
					f = strings.TrimPrefix(f, "github.com/frobnitzem/go-p9p")
					f = strings.TrimLeft(f, "./")
					break
				}
			}
			inner = append(inner, f)
		}
		sort.Strings(inner)
		r.Sig = "race:" + strings.Join(inner, "<>")
		out = append(out, r)
	}
	return out
}

// InFiles: does one of the two racing stacks have a frame in one of the named repo files?
func (r RaceReport) InFiles(files []string) bool {
	for _, st := range r.Frames {
		for _, fr := range st {
			at := strings.Index(fr, "@")
			path := fr[at+1:]
			if !strings.Contains(fr, "frobnitzem/go-p9p") && !strings.Contains(path, "/repo") {
				continue
			}
			for _, f := range files {
				if strings.HasSuffix(path, "/"+f) {
					return true
				}
			}
		}
	}
	return false
}

// HarnessOnly: both racing accesses are made by harness code (the innermost recorded
// frame of each stack belongs to the harness, whatever library frames lie further out).
// Such a report is a defect of the harness, not an observation about the repository.
func (r RaceReport) HarnessOnly() bool {
	for _, st := range r.Frames {
		if len(st) == 0 || !strings.HasPrefix(st[0], "verifharness/") {
			return false
		}
	}
	return len(r.Frames) > 0
}

// ---------------------------------------------------------------- known findings

// KNOWN_FINDINGS is a text file, one entry per line:
//
//	known: property=<id> sig=<signature> :: <what fails>
//	fixed: property=<id> <commit> <what failed>
//
// A known entry suppresses exactly the violations whose signature equals sig; a fixed
// entry suppresses nothing. The file is never written at run time.
type Known struct {
	Prop string
	Sig  string
	What string
}

func LoadKnown(path string) (known []Known, fixed []string) {
	b, err := os.ReadFile(path)
	if err != nil {
		return nil, nil
	}
	for _, l := range strings.Split(string(b), "\n") {
		l = strings.TrimSpace(l)
		switch {
		case strings.HasPrefix(l, "fixed:"):
			fixed = append(fixed, l)
		case strings.HasPrefix(l, "known:"):
			rest := strings.TrimSpace(strings.TrimPrefix(l, "known:"))
			parts := strings.SplitN(rest, "::", 2)
			if len(parts) != 2 {
				continue
			}
			k := Known{What: strings.TrimSpace(parts[1])}
			for _, f := range strings.Fields(parts[0]) {
				if strings.HasPrefix(f, "property=") {
					k.Prop = strings.TrimPrefix(f, "property=")
				}
				if strings.HasPrefix(f, "sig=") {
					k.Sig = strings.TrimPrefix(f, "sig=")
				}
			}
			if k.Prop != "" && k.Sig != "" {
				known = append(known, k)
			}
		}
	}
	return
}

func matchKnown(known []Known, v Violation) *Known {
	for i := range known {
		if known[i].Prop == v.Prop && known[i].Sig == v.Sig {
			return &known[i]
		}
	}
	return nil
}

// ---------------------------------------------------------------- evidence

func writeEvidence(verifDir string, m *Merged, wall float64, violations int, listed []string, nothing string) {
	cov := map[string]interface{}{
		"evaluations":         m.Evaluations,
		"distinct_nontrivial": len(m.Nontrivial),
		"rule":                m.Spec.Rule,
		"samples":             m.Samples,
		"observed":            m.Counters,
	}
	if len(m.Samples) == 0 {
		cov["samples"] = []interface{}{}
	}
	if len(m.Maxima) > 0 {
		cov["maxima"] = m.Maxima
	}
	if m.Exhaustive != nil {
		cov["exhaustive"] = *m.Exhaustive
	}
	if len(m.Inconclusive) > 0 {
		inc := m.Inconclusive
		if len(inc) > 20 {
			inc = inc[:20]
		}
		cov["inconclusive"] = inc
	}
	if len(m.Notes) > 0 {
		notes := uniq(sorted(m.Notes))
		if len(notes) > 30 {
			notes = notes[:30]
		}
		cov["notes"] = notes
	}
	if m.Spec.Race {
		rr := map[string]int{}
		for k, v := range m.RaceReports {
			rr[k] = v
		}
		cov["race_detector"] = map[string]interface{}{"enabled": true, "reports_by_signature": rr, "judged_files": m.Spec.RaceFiles}
		if m.Tier == "thorough" && os.Getenv("GOMAXPROCS") == "" {
			cov["scheduler_widths"] = "shards run with GOMAXPROCS = default, default, 2, 1 in rotation"
		}
	}
	if len(listed) > 0 {
		cov["known_findings_observed"] = listed
	}
	if nothing != "" {
		cov["observed_nothing"] = nothing
	}
	ev := map[string]interface{}{
		"property_id": m.Spec.ID,
		"tier":        m.Tier,
		"seed":        m.Seed,
		"level":       m.Spec.Level,
		"coverage":    cov,
		"assumptions": m.Spec.Assumptions,
		"wall_s":      float64(int(wall*100)) / 100,
		"violations":  violations,
	}
	os.MkdirAll(filepath.Join(verifDir, "evidence"), 0755)
	b, _ := json.MarshalIndent(ev, "", " ")
	os.WriteFile(filepath.Join(verifDir, "evidence", m.Spec.ID+".json"), append(b, '\n'), 0644)
}

// shardProcs: in the thorough tier the concurrent checks run their shards under different
// scheduler widths (default, default, 2, 1 in rotation) to vary the interleavings the Go
// scheduler produces; an explicit GOMAXPROCS in the environment wins.
func shardProcs(tier string, shard int) string {
	if tier != "thorough" || os.Getenv("GOMAXPROCS") != "" {
		return ""
	}
	return []string{"", "", "2", "1"}[shard%4]
}

func sorted(s []string) []string {
	o := append([]string{}, s...)
	sort.Strings(o)
	return o
}
