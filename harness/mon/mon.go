// Package mon holds the monitoring plumbing shared by every property check:
// the per-worker recorder (cases, counters, distinct non-trivial keys, samples,
// violations), the parent-side runner that forks one child process per shard and
// turns a dead child into a crash observation, race-log parsing, the known-findings
// matcher and the evidence writer.
package mon

import (
	"encoding/json"
	"fmt"
	"hash/fnv"
	"math/rand"
	"os"
	"sort"
	"strings"
	"sync"
)

// Violation is one refutation of a property observed by a monitor.
type Violation struct {
	Prop   string      `json:"property"`
	Kind   string      `json:"kind"`      // crash | mismatch | hang | race | leak | ...
	Sig    string      `json:"signature"` // stable identity used by the known-findings matcher
	Msg    string      `json:"message"`
	Case   string      `json:"case,omitempty"` // the logged case that was executing
	Replay interface{} `json:"replay,omitempty"`
}

// Result is what one worker (shard) hands back to the parent.
type Result struct {
	Shard        int              `json:"shard"`
	Evaluations  int64            `json:"evaluations"`
	Nontrivial   []uint64         `json:"nontrivial"`
	Counters     map[string]int64 `json:"counters"`
	Maxima       map[string]int64 `json:"maxima"`
	Samples      []interface{}    `json:"samples"`
	Violations   []Violation      `json:"violations"`
	Inconclusive []string         `json:"inconclusive"`
	Notes        []string         `json:"notes"`
	Exhaustive   *bool            `json:"exhaustive,omitempty"`
	Done         bool             `json:"done"`
}

// W is the recorder handed to a property's workload inside a worker process.
type W struct {
	Prop    string
	Tier    string
	Seed    int64
	Shard   int
	NShards int
	Rng     *rand.Rand
	Dir     string // scratch directory of this run (shared by the shards)

	mu       sync.Mutex
	caseLog  *os.File
	lastCase string
	nt       map[uint64]struct{}
	res      Result
	maxViol  int
}

const maxSamples = 6
const maxNontrivialPerShard = 4 << 20

func NewW(prop, tier string, seed int64, shard, nshards int, dir string) *W {
	w := &W{Prop: prop, Tier: tier, Seed: seed, Shard: shard, NShards: nshards, Dir: dir,
		nt: map[uint64]struct{}{}, maxViol: 25}
	w.Rng = rand.New(rand.NewSource(seed*1000003 + int64(shard)*7919 + int64(hashStr(prop)%100000)))
	w.res.Shard = shard
	w.res.Counters = map[string]int64{}
	w.res.Maxima = map[string]int64{}
	if dir != "" {
		f, err := os.OpenFile(fmt.Sprintf("%s/shard-%d.case", dir, shard), os.O_CREATE|os.O_WRONLY|os.O_TRUNC, 0644)
		if err == nil {
			w.caseLog = f
		}
	}
	return w
}

func hashStr(s string) uint64 {
	h := fnv.New64a()
	h.Write([]byte(s))
	return h.Sum64()
}

// Hash is exported for property code that builds distinctness keys.
func Hash(s string) uint64 { return hashStr(s) }

func (w *W) Thorough() bool { return w.Tier == "thorough" }

// Scale picks a workload size by tier.
func (w *W) Scale(quick, thorough int) int {
	if w.Thorough() {
		return thorough
	}
	return quick
}

// Mine reports whether item i of a deterministic global case list belongs to this shard.
func (w *W) Mine(i int) bool { return i%w.NShards == w.Shard }

// Case records, before it is executed, the case about to run. The record is written
// straight to the case log (no user-space buffering), so that if the process dies the
// parent can attribute the crash to this case.
func (w *W) Case(format string, args ...interface{}) {
	s := format
	if len(args) > 0 {
		s = fmt.Sprintf(format, args...)
	}
	w.mu.Lock()
	w.lastCase = s
	if w.caseLog != nil {
		// overwrite in place: only the last case matters, and the log stays small
		b := []byte(s + "\n")
		w.caseLog.WriteAt(b, 0)
		w.caseLog.Truncate(int64(len(b)))
	}
	w.mu.Unlock()
}

// CaseQuiet remembers the case for violation reports without the disk write (for
// workloads that cannot crash the process or that log in batches).
func (w *W) CaseQuiet(s string) {
	w.mu.Lock()
	w.lastCase = s
	w.mu.Unlock()
}

func (w *W) Eval() { w.mu.Lock(); w.res.Evaluations++; w.mu.Unlock() }
func (w *W) EvalN(n int64) {
	w.mu.Lock()
	w.res.Evaluations += n
	w.mu.Unlock()
}

// NT records a distinct non-trivial case key.
func (w *W) NT(key string) {
	h := hashStr(key)
	w.mu.Lock()
	if len(w.nt) < maxNontrivialPerShard {
		w.nt[h] = struct{}{}
	}
	w.mu.Unlock()
}

func (w *W) Count(key string, n int64) {
	w.mu.Lock()
	w.res.Counters[key] += n
	w.mu.Unlock()
}

func (w *W) Max(key string, v int64) {
	w.mu.Lock()
	if v > w.res.Maxima[key] {
		w.res.Maxima[key] = v
	}
	w.mu.Unlock()
}

// Sample keeps a few actual cases for the evidence file.
func (w *W) Sample(v interface{}) {
	w.mu.Lock()
	if len(w.res.Samples) < maxSamples {
		w.res.Samples = append(w.res.Samples, v)
	}
	w.mu.Unlock()
}

// SampleDue is true when samples are still wanted and at least stride evaluations were made per sample taken so far.
func (w *W) SampleDue(stride int64) bool {
	w.mu.Lock()
	defer w.mu.Unlock()
	return len(w.res.Samples) < maxSamples && w.res.Evaluations >= int64(len(w.res.Samples))*stride
}

func (w *W) WantSample() bool {
	w.mu.Lock()
	defer w.mu.Unlock()
	return len(w.res.Samples) < maxSamples
}

func (w *W) Note(format string, args ...interface{}) {
	w.mu.Lock()
	if len(w.res.Notes) < 40 {
		w.res.Notes = append(w.res.Notes, fmt.Sprintf(format, args...))
	}
	w.mu.Unlock()
}

func (w *W) Inconclusive(format string, args ...interface{}) {
	w.mu.Lock()
	if len(w.res.Inconclusive) < 40 {
		w.res.Inconclusive = append(w.res.Inconclusive, fmt.Sprintf(format, args...))
	}
	w.res.Counters["inconclusive"]++
	w.mu.Unlock()
}

func (w *W) SetExhaustive(b bool) { w.mu.Lock(); w.res.Exhaustive = &b; w.mu.Unlock() }

// Violate records a violation. sig must be stable across runs for the same defect and
// must not contain run-specific values (it is what KNOWN_FINDINGS entries name).
func (w *W) Violate(kind, sig, msg string, replay interface{}) {
	w.mu.Lock()
	defer w.mu.Unlock()
	w.res.Counters["violations_seen"]++
	for _, v := range w.res.Violations {
		if v.Sig == sig {
			return // one witness per signature and shard is enough
		}
	}
	if len(w.res.Violations) >= w.maxViol {
		return
	}
	if len(msg) > 6000 {
		msg = msg[:3000] + fmt.Sprintf(" ...[%d bytes omitted]... ", len(msg)-6000) + msg[len(msg)-3000:]
	}
	w.res.Violations = append(w.res.Violations, Violation{Prop: w.Prop, Kind: kind, Sig: sig, Msg: msg, Case: w.lastCase, Replay: replay})
}

func (w *W) Violations() int {
	w.mu.Lock()
	defer w.mu.Unlock()
	return len(w.res.Violations)
}

// Finish writes the shard result.
func (w *W) Finish() error {
	w.mu.Lock()
	defer w.mu.Unlock()
	w.res.Nontrivial = make([]uint64, 0, len(w.nt))
	for h := range w.nt {
		w.res.Nontrivial = append(w.res.Nontrivial, h)
	}
	sort.Slice(w.res.Nontrivial, func(i, j int) bool { return w.res.Nontrivial[i] < w.res.Nontrivial[j] })
	w.res.Done = true
	b, err := json.Marshal(&w.res)
	if err != nil {
		return err
	}
	tmp := fmt.Sprintf("%s/shard-%d.result.tmp", w.Dir, w.Shard)
	if err := os.WriteFile(tmp, b, 0644); err != nil {
		return err
	}
	return os.Rename(tmp, strings.TrimSuffix(tmp, ".tmp"))
}
