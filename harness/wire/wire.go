// Package wire provides the in-memory net.Conn family used by the harnesses. All of
// them record deadlines without enforcing them (virtual time): nothing in a run is
// decided by time.Now().
package wire

import (
	"errors"
	"io"
	"net"
	"sync"
	"time"
)

type addr struct{}

func (addr) Network() string { return "mem" }
func (addr) String() string  { return "mem" }

type base struct{}

func (base) LocalAddr() net.Addr              { return addr{} }
func (base) RemoteAddr() net.Addr             { return addr{} }
func (base) SetDeadline(time.Time) error      { return nil }
func (base) SetReadDeadline(time.Time) error  { return nil }
func (base) SetWriteDeadline(time.Time) error { return nil }

// ---------------------------------------------------------------- Script

// Script serves a fixed inbound byte stream in scripted chunk sizes and captures
// every Write separately. At the end of the stream Read returns EndErr (io.EOF by
// default).
type Script struct {
	base
	In     []byte
	Chunks []int // sizes of successive Read results; when exhausted, the last one repeats (0 = as much as asked)
	EndErr error

	mu     sync.Mutex
	pos    int
	ci     int
	Writes [][]byte
	Reads  int
	closed bool
}

func (c *Script) Read(p []byte) (int, error) {
	c.mu.Lock()
	defer c.mu.Unlock()
	if len(p) == 0 {
		return 0, nil
	}
	if c.pos >= len(c.In) {
		if c.EndErr != nil {
			return 0, c.EndErr
		}
		return 0, io.EOF
	}
	n := len(p)
	if len(c.Chunks) > 0 {
		k := c.Chunks[len(c.Chunks)-1]
		if c.ci < len(c.Chunks) {
			k = c.Chunks[c.ci]
			c.ci++
		}
		if k > 0 && k < n {
			n = k
		}
	}
	if n > len(c.In)-c.pos {
		n = len(c.In) - c.pos
	}
	copy(p, c.In[c.pos:c.pos+n])
	c.pos += n
	c.Reads++
	return n, nil
}

func (c *Script) Write(p []byte) (int, error) {
	c.mu.Lock()
	defer c.mu.Unlock()
	c.Writes = append(c.Writes, append([]byte{}, p...))
	return len(p), nil
}

func (c *Script) Close() error { c.mu.Lock(); c.closed = true; c.mu.Unlock(); return nil }

// Written returns all captured bytes concatenated.
func (c *Script) Written() []byte {
	c.mu.Lock()
	defer c.mu.Unlock()
	var out []byte
	for _, w := range c.Writes {
		out = append(out, w...)
	}
	return out
}

func (c *Script) ResetWrites() { c.mu.Lock(); c.Writes = nil; c.mu.Unlock() }

// Consumed reports how many inbound bytes have been handed out.
func (c *Script) Consumed() int { c.mu.Lock(); defer c.mu.Unlock(); return c.pos }

// ---------------------------------------------------------------- BPipe

// half is one direction of a BPipe: a byte queue with capacity cap (0 = rendezvous,
// like net.Pipe: a Write returns only when all its bytes have been read).
type half struct {
	mu     sync.Mutex
	cond   *sync.Cond
	buf    []byte
	cap    int
	wclose bool // writer side closed: reader gets EOF after draining
	rclose bool // reader side closed: writer gets ErrClosedPipe
	total  int64
	// statistics
	maxBuffered int
}

func newHalf(cap int) *half {
	h := &half{cap: cap}
	h.cond = sync.NewCond(&h.mu)
	return h
}

func (h *half) write(p []byte) (int, error) {
	h.mu.Lock()
	defer h.mu.Unlock()
	written := 0
	for written < len(p) {
		if h.rclose || h.wclose {
			return written, io.ErrClosedPipe
		}
		space := len(p) - written
		if h.cap > 0 {
			space = h.cap - len(h.buf)
			if space > len(p)-written {
				space = len(p) - written
			}
		} else if len(h.buf) > 0 {
			space = 0
		}
		if space > 0 {
			h.buf = append(h.buf, p[written:written+space]...)
			written += space
			if len(h.buf) > h.maxBuffered {
				h.maxBuffered = len(h.buf)
			}
			h.cond.Broadcast()
			continue
		}
		h.cond.Wait()
	}
	if h.cap == 0 {
		// rendezvous: wait until the reader has taken everything
		for len(h.buf) > 0 && !h.rclose && !h.wclose {
			h.cond.Wait()
		}
		if len(h.buf) > 0 {
			return written - len(h.buf), io.ErrClosedPipe
		}
	}
	return written, nil
}

func (h *half) read(p []byte) (int, error) {
	h.mu.Lock()
	defer h.mu.Unlock()
	for len(h.buf) == 0 {
		if h.rclose {
			return 0, io.ErrClosedPipe
		}
		if h.wclose {
			return 0, io.EOF
		}
		h.cond.Wait()
	}
	n := copy(p, h.buf)
	h.buf = h.buf[n:]
	h.total += int64(n)
	h.cond.Broadcast()
	return n, nil
}

// End is one endpoint of a BPipe.
type End struct {
	base
	r, w *half

	// Clock, if set, makes this end honour write deadlines the way a socket does: a
	// Write made when Clock() is past the deadline last set fails with a timeout error.
	// The clock is the harness's (virtual), so no real waiting is involved.
	Clock         func() time.Time
	dmu           sync.Mutex
	wdl           time.Time
	WDeadlineSets int
	WTimeouts     int
}

// NetErr is a net.Error with the given flavour.
type NetErr struct {
	Msg                    string
	IsTimeout, IsTemporary bool
}

func (e *NetErr) Error() string   { return e.Msg }
func (e *NetErr) Timeout() bool   { return e.IsTimeout }
func (e *NetErr) Temporary() bool { return e.IsTemporary }

func (e *End) SetWriteDeadline(t time.Time) error {
	e.dmu.Lock()
	e.wdl = t
	e.WDeadlineSets++
	e.dmu.Unlock()
	return nil
}

func (e *End) SetDeadline(t time.Time) error { return e.SetWriteDeadline(t) }

// BPipe returns a connected pair; each direction buffers up to cap bytes.
func BPipe(cap int) (*End, *End) {
	ab, ba := newHalf(cap), newHalf(cap)
	return &End{r: ba, w: ab}, &End{r: ab, w: ba}
}

func (e *End) Read(p []byte) (int, error) { return e.r.read(p) }
func (e *End) Write(p []byte) (int, error) {
	if e.Clock != nil {
		e.dmu.Lock()
		d := e.wdl
		expired := !d.IsZero() && e.Clock().After(d)
		if expired {
			e.WTimeouts++
		}
		e.dmu.Unlock()
		if expired {
			return 0, &NetErr{Msg: "write mem: i/o timeout", IsTimeout: true, IsTemporary: true}
		}
	}
	return e.w.write(p)
}
func (e *End) Close() error {
	e.w.mu.Lock()
	e.w.wclose = true
	e.w.cond.Broadcast()
	e.w.mu.Unlock()
	e.r.mu.Lock()
	e.r.rclose = true
	e.r.cond.Broadcast()
	e.r.mu.Unlock()
	return nil
}

// CloseWrite half-closes: the peer sees EOF after draining, this end can still read.
func (e *End) CloseWrite() {
	e.w.mu.Lock()
	e.w.wclose = true
	e.w.cond.Broadcast()
	e.w.mu.Unlock()
}

func (e *End) MaxBuffered() int { e.w.mu.Lock(); defer e.w.mu.Unlock(); return e.w.maxBuffered }

// ---------------------------------------------------------------- Fault

var ErrInjected = errors.New("injected connection failure")

// Fault wraps a conn and injects exactly the faults it is told to:
//
//	ReadFailAt >= 0 : the Read that would deliver inbound byte number ReadFailAt (0-based)
//	                  delivers only the bytes before it; the next Read returns ReadErr.
//	WriteFailAt > 0 : the WriteFailAt-th Write (1-based) fails with WriteErr after
//	                  passing on WritePartial bytes; every later Write fails too.
//	WriteGate       : if non-nil, the failing Write first parks until the gate is closed.
type Fault struct {
	net.Conn
	ReadFailAt    int
	ReadErr       error
	WriteFailAt   int
	WriteErr      error
	WritePartial  int
	WriteGate     chan struct{}
	WriteParked   chan struct{} // closed when the failing write has parked
	WriteFailOnce bool          // only the WriteFailAt-th write fails; later writes pass
	// WritePassAfterGate: the WriteFailAt-th write only parks at the gate; once the gate is
	// closed it is passed on whole and succeeds (a stall, not a failure)
	WritePassAfterGate bool

	mu       sync.Mutex
	inBytes  int
	writes   int
	wfailed  bool
	rfailed  bool
	InTotal  int
	OutCount int
	parkOnce sync.Once

	readsAfterFail int
	glitches       int
	glitched       int
}

// ReadsAfterFail: how many Reads were attempted after the injected read failure had been reported.
func (f *Fault) ReadsAfterFail() int { f.mu.Lock(); defer f.mu.Unlock(); return f.readsAfterFail }

func NewFault(c net.Conn) *Fault {
	return &Fault{Conn: c, ReadFailAt: -1, ReadErr: ErrInjected, WriteErr: ErrInjected}
}

// Glitch makes the next n Reads fail with a temporary timeout error without consuming or
// losing anything: what an idle-timeout on a socket looks like. The stream continues.
func (f *Fault) Glitch(n int) { f.mu.Lock(); f.glitches += n; f.mu.Unlock() }

// Glitched: how many such errors have been delivered.
func (f *Fault) Glitched() int { f.mu.Lock(); defer f.mu.Unlock(); return f.glitched }

func (f *Fault) Read(p []byte) (int, error) {
	f.mu.Lock()
	if f.glitches > 0 {
		f.glitches--
		f.glitched++
		f.mu.Unlock()
		return 0, &NetErr{Msg: "read mem: i/o timeout", IsTimeout: true, IsTemporary: true}
	}
	if f.rfailed {
		f.readsAfterFail++
		f.mu.Unlock()
		return 0, f.ReadErr
	}
	limit := len(p)
	if f.ReadFailAt >= 0 {
		rem := f.ReadFailAt - f.inBytes
		if rem <= 0 {
			f.rfailed = true
			f.mu.Unlock()
			return 0, f.ReadErr
		}
		if rem < limit {
			limit = rem
		}
	}
	f.mu.Unlock()
	n, err := f.Conn.Read(p[:limit])
	f.mu.Lock()
	defer f.mu.Unlock()
	// the fault may have been armed while this Read was parked in the inner conn:
	// apply the limit to what came back (bytes beyond the fault point are lost, as
	// they would be on a broken connection)
	if f.ReadFailAt >= 0 {
		rem := f.ReadFailAt - f.inBytes
		if rem <= 0 {
			f.rfailed = true
			return 0, f.ReadErr
		}
		if n > rem {
			n = rem
		}
	}
	f.inBytes += n
	f.InTotal = f.inBytes
	return n, err
}

func (f *Fault) Write(p []byte) (int, error) {
	f.mu.Lock()
	if f.wfailed && !f.WriteFailOnce {
		f.mu.Unlock()
		return 0, f.WriteErr
	}
	f.writes++
	f.OutCount = f.writes
	fail := f.WriteFailAt > 0 && f.writes == f.WriteFailAt
	if fail {
		f.wfailed = true
	}
	gate := f.WriteGate
	f.mu.Unlock()
	if fail {
		if gate != nil {
			if f.WriteParked != nil {
				f.parkOnce.Do(func() { close(f.WriteParked) })
			}
			<-gate
		}
		if f.WritePassAfterGate {
			return f.Conn.Write(p)
		}
		n := 0
		if f.WritePartial > 0 {
			k := f.WritePartial
			if k > len(p) {
				k = len(p)
			}
			n, _ = f.Conn.Write(p[:k])
		}
		return n, f.WriteErr
	}
	return f.Conn.Write(p)
}

// WriteFailed: the injected write failure has been delivered to the writer.
func (f *Fault) WriteFailed() bool { f.mu.Lock(); defer f.mu.Unlock(); return f.wfailed }

func (f *Fault) Counts() (inBytes, writes int) {
	f.mu.Lock()
	defer f.mu.Unlock()
	return f.inBytes, f.writes
}

// ---------------------------------------------------------------- Tap

// Frame is one frame seen on the wire by a Tap.
type Frame struct {
	Out   bool   // written by the wrapped side (true) or read by it (false)
	Bytes []byte // complete frame including size[4]
	Seq   int
}

// Tap passes bytes through unchanged while reassembling them into frames in both
// directions. OnFrame (optional) is called for each complete frame. RewriteMsize, if
// non-zero, replaces the msize field of the first outbound frame when that frame is a
// Tversion (used to drive stock CSession/ServeConn pairs at any negotiated msize).
type Tap struct {
	net.Conn
	RewriteMsize uint32
	OnFrame      func(Frame)

	mu       sync.Mutex
	inAcc    []byte
	outAcc   []byte
	seq      int
	Frames   []Frame
	first    bool
	pending  []byte // outbound bytes held until the first frame is complete (rewrite mode)
	Keep     bool   // keep all frames in Frames
	MaxIn    int
	MaxOut   int
	InCount  int
	OutCount int
}

func NewTap(c net.Conn) *Tap { return &Tap{Conn: c, first: true, Keep: true} }

func le32(b []byte) int {
	return int(uint32(b[0]) | uint32(b[1])<<8 | uint32(b[2])<<16 | uint32(b[3])<<24)
}

func (t *Tap) feed(acc *[]byte, p []byte, out bool) {
	*acc = append(*acc, p...)
	for len(*acc) >= 4 {
		n := le32(*acc)
		if n < 4 {
			n = 4 // a malformed prefix: treat the prefix alone as a frame so that we do not stall
		}
		if len(*acc) < n {
			return
		}
		fr := Frame{Out: out, Bytes: append([]byte{}, (*acc)[:n]...), Seq: t.seq}
		t.seq++
		*acc = (*acc)[n:]
		if out {
			t.OutCount++
			if n > t.MaxOut {
				t.MaxOut = n
			}
		} else {
			t.InCount++
			if n > t.MaxIn {
				t.MaxIn = n
			}
		}
		if t.Keep {
			t.Frames = append(t.Frames, fr)
		}
		if t.OnFrame != nil {
			t.OnFrame(fr)
		}
	}
}

func (t *Tap) Read(p []byte) (int, error) {
	n, err := t.Conn.Read(p)
	if n > 0 {
		t.mu.Lock()
		t.feed(&t.inAcc, p[:n], false)
		t.mu.Unlock()
	}
	return n, err
}

func (t *Tap) Write(p []byte) (int, error) {
	t.mu.Lock()
	if t.first && t.RewriteMsize != 0 {
		t.pending = append(t.pending, p...)
		if len(t.pending) < 4 || len(t.pending) < le32(t.pending) {
			t.mu.Unlock()
			return len(p), nil
		}
		q := t.pending
		t.pending = nil
		t.first = false
		if len(q) >= 11 && q[4] == 100 {
			v := t.RewriteMsize
			q[7], q[8], q[9], q[10] = byte(v), byte(v>>8), byte(v>>16), byte(v>>24)
		}
		t.feed(&t.outAcc, q, true)
		t.mu.Unlock()
		if _, err := t.Conn.Write(q); err != nil {
			return 0, err
		}
		return len(p), nil
	}
	t.first = false
	t.feed(&t.outAcc, p, true)
	t.mu.Unlock()
	return t.Conn.Write(p)
}

// Snapshot returns a copy of the frames seen so far.
func (t *Tap) Snapshot() []Frame {
	t.mu.Lock()
	defer t.mu.Unlock()
	return append([]Frame{}, t.Frames...)
}

func (t *Tap) Max() (in, out int) {
	t.mu.Lock()
	defer t.mu.Unlock()
	return t.MaxIn, t.MaxOut
}

// dmuStats reports how often a write deadline was set and how many writes timed out.
func (e *End) DeadlineStats() (sets, timeouts int) {
	e.dmu.Lock()
	defer e.dmu.Unlock()
	return e.WDeadlineSets, e.WTimeouts
}

// Frag delivers at most Max bytes per Read (a stream that hands data over in small segments).
type Frag struct {
	net.Conn
	Max int
}

func (f *Frag) Read(p []byte) (int, error) {
	if len(p) > f.Max {
		p = p[:f.Max]
	}
	return f.Conn.Read(p)
}
