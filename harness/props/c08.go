package props

import (
	"context"
	"fmt"
	"strings"
	"time"

	p9p "github.com/frobnitzem/go-p9p"

	"verifharness/fsx"
	"verifharness/mon"
)

// C08: server session follows the 9P fid state machine for every call sequence.
func init() {
	register(&mon.Spec{
		ID:    "C08",
		Level: "exploration",
		Rule: "(besides the sequences, 400+ queued pairs: a request issued on a fid while another request on it is still inside the file system, judged by the release/overlap monitors of C13) sequential call sequences (1-60 calls) on p9p.SFileSys(instrumented FS) compared call-by-call with the reference fid-table model (DESIGN App. A): PRNG sequences over attach/walk/open/create/read/write/stat/wstat/clunk/remove/auth with fids from the tiny pool {0,1,2,3,7,NOFID} " +
			"(duplicates, never-bound and rebinding are frequent), name lists from the path alphabet (valid, invalid, missing, partial, '..'), FS behaviours found/not-found/partial/error/nil-result selected by name and by injected call faults, all 256 open-mode bytes; " +
			"plus a systematic part enumerating every ordered pair of operation kinds x fid relation (same, other bound, unbound, NOFID) after a fixed prologue. After every call: outcome and results, the exact FS calls (which handle, which arguments), and — through the verif hook — the whole fid table (bound set, handle, open flag, mode, nothing locked) must match the model; a call that has not returned at quiescence is a hang. " +
			"non-trivial = the sequence reaches >= 3 distinct table states; distinct by hash of the model-state trace",
		Assumptions: []string{
			"the instrumented FS (harness/fsx) is deterministic: its outcomes are a function of tree state, arguments and the injected fault plan, which the model shares",
			"choices the statement leaves open are relations in the model: error texts are not compared (except duplicate-fid), in-place walk of an open fid may be refused or move the fid leaving it not open, a walk whose first element is missing may fail or return no qids, create of a directory whose OpenDir fails may leave the fid untouched or unbound",
			"requires the verif-tagged fid-table hook (p9p.VerifFidTable)",
		},
		Shards:   shards(8, 16),
		Timeout:  timeouts(12*time.Minute, 90*time.Minute),
		MinEvals: 2000,
		Required: []string{"queued_pair_runs", "cover:attach-ok", "cover:attach-dupfid", "cover:attach-with-afid", "cover:walk-dupfid", "cover:walk-partial", "cover:walk-complete-newfid", "cover:walk-complete-inplace", "cover:walk-unknown-fid",
			"cover:clone-ok", "cover:open-already-open", "cover:open-file-ok", "cover:open-dir-ok", "cover:create-file-ok", "cover:create-dir-ok", "cover:read-not-open", "cover:read-mode-forbids", "cover:read-file-ok",
			"cover:write-mode-forbids", "cover:write-file-ok", "cover:clunk-ok", "cover:remove-ok", "cover:clunk-unknown-fid", "cover:clunk-fs-error-still-unbinds", "cover:remove-fs-error-still-unbinds", "cover:walk-fs-error", "table_comparisons", "pair_cases"},
		Run: runC08,
	})
}

var c08fids = []p9p.Fid{0, 1, 2, 3, 7, p9p.NOFID}
var c08names = []string{"a", "b", "d", "e", "f", "g", "h", "..", "..", "missing", "xmissing", "nilx", ".", "", "a/b", "dappend", "dtmp", "ofail1", "ofailf1", "kfail1", "rfail1", "iofail1", "sfail1", "onil1", "odfail1", "odnil1", "kfaildir", "wfail1", "wnil1", "new1", "new2"}
var c08create = []string{"new1", "new2", "new3", "a", ".", "..", "", "x/y", "cfail1", "nilent1", "nilfile1", "odfail2", "odnil2", "kfail2", "rfail2", "iofail2"}

type rnd interface{ Intn(int) int }

func genNames(r rnd) []string {
	n := 0
	switch r.Intn(10) {
	case 0:
		n = 0
	case 1, 2, 3, 4:
		n = 1
	case 5, 6:
		n = 2
	case 7:
		n = 3
	case 8:
		n = 4 + r.Intn(13)
	default:
		n = 17
	}
	out := make([]string, n)
	for i := range out {
		out[i] = c08names[r.Intn(len(c08names))]
	}
	// common realistic shapes
	switch r.Intn(8) {
	case 0:
		return []string{"d", "g", "h"}[:1+r.Intn(3)]
	case 1:
		return []string{"d", "e"}
	case 2:
		return []string{"d", "missing", "e"}
	case 3:
		return []string{"..", "d"}
	}
	return out
}

func genOp(r rnd) fsx.Op {
	fid := func() p9p.Fid { return c08fids[r.Intn(len(c08fids))] }
	kinds := []string{"attach", "attach", "walk", "walk", "walk", "walk", "open", "open", "create", "create", "read", "read", "write", "stat", "wstat", "clunk", "clunk", "remove", "auth"}
	o := fsx.Op{Kind: kinds[r.Intn(len(kinds))], Fid: fid(), Afid: p9p.NOFID}
	switch o.Kind {
	case "auth":
		o.Afid = fid()
	case "attach":
		if r.Intn(6) == 0 {
			o.Afid = fid()
		}
		if r.Intn(12) == 0 {
			o.Aname = "fail"
		}
	case "walk":
		o.NewFid = fid()
		if r.Intn(4) == 0 {
			o.NewFid = o.Fid
		}
		o.Names = genNames(r)
	case "open":
		o.Mode = p9p.Flag(r.Intn(256))
		if r.Intn(2) == 0 {
			o.Mode = []p9p.Flag{p9p.OREAD, p9p.OWRITE, p9p.ORDWR, p9p.OEXEC, p9p.OWRITE | p9p.OTRUNC, p9p.ORDWR | p9p.ORCLOSE, 0x11, 0x41}[r.Intn(8)]
		}
	case "create":
		o.Name = c08create[r.Intn(len(c08create))]
		o.Mode = p9p.Flag(r.Intn(256))
		if r.Intn(2) == 0 {
			o.Mode = []p9p.Flag{p9p.OREAD, p9p.OWRITE, p9p.ORDWR, p9p.OEXEC}[r.Intn(4)]
		}
		o.Perm = uint32(r.Intn(0x200))
		if r.Intn(3) == 0 {
			o.Perm |= p9p.DMDIR
		}
	case "read", "write":
		o.N = []int{0, 1, 16, 200, 4096}[r.Intn(5)]
		o.Off = []int64{0, 1, 50, 63, 64, 163, 1 << 40, -1}[r.Intn(8)]
	case "wstat":
		if r.Intn(4) == 0 {
			o.Dir.Name = "fail"
		} else {
			o.Dir.Name = "n"
		}
	}
	return o
}

// seqRun drives one sequence against a fresh session and judges every step. It returns
// the number of distinct table states reached.
type seqOpts struct {
	prop      string
	stopAfter int  // run only this many ops (-1 = all)
	stop      bool // then call Session.Stop and check that everything bound was released exactly once
	plan      map[int]fsx.Fault
	desc      string
}

type seqResult struct {
	states       int
	trace        string
	fsCalls      int
	violated     bool
	boundMax     int
	fs           *fsx.FS
	labels       []string
	boundAtEnd   int
	stopReleased int
}

func seqRun(w *mon.W, ops []fsx.Op, opt seqOpts) seqResult {
	fs := fsx.New()
	for k, v := range opt.plan {
		fs.Plan[k] = v
	}
	sess := p9p.SFileSys(fs)
	model := fsx.NewModel(fs)
	ctx := context.Background()
	var res seqResult
	res.fs = fs
	states := map[string]bool{}
	var trace []string
	problemsSeen := 0
	var done []string
	report := func(kind, sig, msg string) {
		res.violated = true
		w.Violate(kind, opt.prop+":"+sig, fmt.Sprintf("%s; after [%s]; %s", msg, strings.Join(done, "; "), opt.desc),
			map[string]interface{}{"ops": fmt.Sprint(ops), "fault_plan": fmt.Sprint(opt.plan), "failed_at": len(done)})
	}
	n := len(ops)
	if opt.stopAfter >= 0 && opt.stopAfter < n {
		n = opt.stopAfter
	}
	for i := 0; i < n; i++ {
		o := ops[i]
		base := fs.Calls()
		alts := model.Expect(o, base)
		var r fsx.Res
		fin := make(chan struct{})
		go func() { r = fsx.Do(ctx, sess, o); close(fin) }()
		q := mon.AwaitQuiesce(fin)
		if q.Hung {
			report("hang", "hang:"+o.Kind+":"+q.Sites, fmt.Sprintf("%v has not returned although the process is quiescent (blocked at %s)", o, q.Sites))
			return res
		}
		if q.Inconclusive {
			w.Inconclusive("watchdog fired while %v was running", o)
			return res
		}
		log := fs.LogSince(base)
		label, problem := model.Judge(o, alts, r, log)
		done = append(done, o.String())
		if problem != "" {
			a0 := "?"
			if len(alts) > 0 {
				a0 = alts[0].Label
			}
			report("mismatch", "model:"+o.Kind+":"+a0, problem)
			return res
		}
		res.labels = append(res.labels, label)
		w.Count("cover:"+label, 1)
		// whole-table comparison through the hook
		if tab, ok := p9p.VerifFidTable(sess); ok {
			w.Count("table_comparisons", 1)
			if p := model.CompareTable(tab); p != "" {
				report("mismatch", "table:"+o.Kind+":"+label, fmt.Sprintf("after %v [%s]: %s", o, label, p))
				return res
			}
		}
		// online monitors inside the FS
		if ps := fs.Problems(); len(ps) > problemsSeen {
			p := ps[problemsSeen]
			problemsSeen = len(ps)
			report(p.Kind, p.Kind+":"+o.Kind+":"+label, fmt.Sprintf("during %v [%s]: %s", o, label, p.Msg))
			return res
		}
		if len(model.T) > res.boundMax {
			res.boundMax = len(model.T)
		}
		k := model.StateKey()
		states[k] = true
		trace = append(trace, k)
	}
	res.states = len(states)
	res.trace = strings.Join(trace, ";")
	res.fsCalls = fs.Calls()
	res.boundAtEnd = len(model.T)
	if !opt.stop {
		return res
	}
	// Session.Stop: every entry still bound must be released by exactly one Clunk.
	base := fs.Calls()
	fin := make(chan struct{})
	go func() { sess.Stop(nil); close(fin) }()
	if q := mon.AwaitQuiesce(fin); q.Hung {
		report("hang", "hang:stop:"+q.Sites, fmt.Sprintf("Stop has not returned although the process is quiescent (blocked at %s)", q.Sites))
		return res
	} else if q.Inconclusive {
		w.Inconclusive("watchdog fired during Stop")
		return res
	}
	done = append(done, "Stop")
	stopCalls := fs.LogSince(base)
	want := map[int]bool{}
	for _, f := range model.T {
		want[f.H.ID] = true
	}
	for _, c := range stopCalls {
		if c.Op != "clunk" || !want[c.H] {
			report("mismatch", "stop:unexpected-call", fmt.Sprintf("Stop made the FS call %v; bound handles were %v", c, want))
			return res
		}
		delete(want, c.H)
		res.stopReleased++
	}
	if len(want) > 0 {
		report("leak", "stop:not-released", fmt.Sprintf("Stop did not release %d bound entr(y/ies): handles %v", len(want), want))
		return res
	}
	if tab, ok := p9p.VerifFidTable(sess); ok {
		for _, e := range tab {
			if e.Locked || e.Ent != nil {
				report("leak", "stop:still-bound", fmt.Sprintf("after Stop fid %d is still bound (locked=%v ent=%v)", e.Fid, e.Locked, e.Ent))
				return res
			}
		}
	}
	if ps := fs.Problems(); len(ps) > problemsSeen {
		p := ps[problemsSeen]
		report(p.Kind, p.Kind+":stop", "during Stop: "+p.Msg)
		return res
	}
	for _, p := range fs.FinalCheck() {
		report(p.Kind, p.Kind+":final", "after Stop: "+p.Msg)
		return res
	}
	return res
}

func runC08(w *mon.W) {
	// requests pipelined on one fid: B arrives while A (a clunk, remove, in-place walk, create,
	// or a mere use) is still inside the file system; whatever B then does must be what the
	// state machine prescribes for the state A leaves behind (the machinery of C13's queued pairs)
	for i := 0; i < w.Scale(400, 40000); i++ {
		if w.Mine(i) {
			c13Queued(w, i)
		}
	}
	total := w.Scale(2400, 1200000)
	for i := 0; i < total; i++ {
		if !w.Mine(i) {
			continue
		}
		n := 1 + w.Rng.Intn(60)
		ops := make([]fsx.Op, n)
		for j := range ops {
			ops[j] = genOp(w.Rng)
		}
		// most sequences start by attaching so that something is bound
		if w.Rng.Intn(5) != 0 {
			ops[0] = fsx.Op{Kind: "attach", Fid: c08fids[w.Rng.Intn(5)], Afid: p9p.NOFID}
		}
		plan := map[int]fsx.Fault{}
		if w.Rng.Intn(3) == 0 {
			for k := 0; k < 1+w.Rng.Intn(3); k++ {
				plan[1+w.Rng.Intn(2*n)] = []fsx.Fault{fsx.FaultErr, fsx.FaultErr, fsx.FaultNil}[w.Rng.Intn(3)]
			}
			delete(plan, 1) // keep the first attach
		}
		w.Case("C08 seq %v plan=%v", ops, plan)
		r := seqRun(w, ops, seqOpts{prop: "C08", stopAfter: -1, plan: plan, desc: fmt.Sprintf("sequence #%d", i)})
		w.EvalN(int64(len(r.labels)))
		if r.states >= 3 {
			w.NT(r.trace)
		}
		if w.SampleDue(997) {
			var s []string
			for j, o := range ops {
				if j < len(r.labels) && j < 12 {
					s = append(s, o.String()+" => "+r.labels[j])
				}
			}
			w.Sample(map[string]interface{}{"sequence_head": s, "length": len(ops), "distinct_table_states": r.states, "fault_plan": fmt.Sprint(plan)})
		}
	}
	// systematic part: every ordered pair of operation kinds x fid relation
	kinds := []string{"attach", "walk", "walk-inplace", "clone", "open", "create", "read", "write", "stat", "wstat", "clunk", "remove"}
	rels := []string{"same", "other", "unbound", "nofid"}
	idx := 0
	mk := func(kind string, fid, other p9p.Fid) fsx.Op {
		switch kind {
		case "attach":
			return fsx.Op{Kind: "attach", Fid: fid, Afid: p9p.NOFID}
		case "walk":
			return fsx.Op{Kind: "walk", Fid: fid, NewFid: other, Names: []string{"d"}}
		case "walk-inplace":
			return fsx.Op{Kind: "walk", Fid: fid, NewFid: fid, Names: []string{"d", "g"}}
		case "clone":
			return fsx.Op{Kind: "walk", Fid: fid, NewFid: other}
		case "open":
			return fsx.Op{Kind: "open", Fid: fid, Mode: p9p.ORDWR}
		case "create":
			return fsx.Op{Kind: "create", Fid: fid, Name: "pairfile", Perm: 0644, Mode: p9p.ORDWR}
		case "read":
			return fsx.Op{Kind: "read", Fid: fid, N: 8}
		case "write":
			return fsx.Op{Kind: "write", Fid: fid, N: 8}
		case "wstat":
			return fsx.Op{Kind: "wstat", Fid: fid, Dir: p9p.Dir{Name: "n"}}
		}
		return fsx.Op{Kind: kind, Fid: fid}
	}
	for _, k1 := range kinds {
		for _, k2 := range kinds {
			for _, rel := range rels {
				for _, start := range []string{"dir", "file", "openfile"} {
					idx++
					if !w.Mine(idx) {
						continue
					}
					// prologue: fid 1 = root, fid 2 = the subject (dir /d, file /a, or open file /a), fid 3 = another bound fid
					ops := []fsx.Op{{Kind: "attach", Fid: 1, Afid: p9p.NOFID}}
					switch start {
					case "dir":
						ops = append(ops, fsx.Op{Kind: "walk", Fid: 1, NewFid: 2, Names: []string{"d"}})
					case "file":
						ops = append(ops, fsx.Op{Kind: "walk", Fid: 1, NewFid: 2, Names: []string{"a"}})
					default:
						ops = append(ops, fsx.Op{Kind: "walk", Fid: 1, NewFid: 2, Names: []string{"a"}}, fsx.Op{Kind: "open", Fid: 2, Mode: p9p.ORDWR})
					}
					ops = append(ops, fsx.Op{Kind: "walk", Fid: 1, NewFid: 3})
					var f2 p9p.Fid
					switch rel {
					case "same":
						f2 = 2
					case "other":
						f2 = 3
					case "unbound":
						f2 = 9
					default:
						f2 = p9p.NOFID
					}
					ops = append(ops, mk(k1, 2, 5), mk(k2, f2, 6), fsx.Op{Kind: "stat", Fid: 2}, fsx.Op{Kind: "stat", Fid: 5}, fsx.Op{Kind: "stat", Fid: 6})
					w.Case("C08 pair %s,%s rel=%s start=%s", k1, k2, rel, start)
					r := seqRun(w, ops, seqOpts{prop: "C08", stopAfter: -1, desc: fmt.Sprintf("pair (%s,%s) rel=%s start=%s", k1, k2, rel, start)})
					w.EvalN(int64(len(r.labels)))
					w.Count("pair_cases", 1)
					if r.states >= 3 {
						w.NT(r.trace)
					}
				}
			}
		}
	}
}
