package props

import (
	"context"
	"fmt"
	"strings"
	"time"

	p9p "github.com/frobnitzem/go-p9p"

	"verifharness/gen"
	"verifharness/mon"
	"verifharness/refcodec"
	"verifharness/wire"
)

// C10: version negotiation yields one msize that both ends then honour.
func init() {
	register(&mon.Spec{
		ID:    "C10",
		Level: "exploration",
		Rule: "server half: a raw client proposes msize P with version string V to p9p.ServeConn (scripted handler) for P in {0..30, 255, 256, 4096, 65535, 65536, 65537, 2^31-1, 2^31, 2^32-1, rnd} x V in {9P2000, 9P2000.u, 9P1999, empty, long, unknown}, or opens with a message that is not Tversion; after a successful handshake a fixed battery runs: " +
			"maximal Tread (count 2^32-1, the handler fills whatever count it is given), a client frame of exactly msize (must reach the handler intact), msize-1 and msize+1 frames, and a handler result larger than msize (a huge Rstat, or an Rread carrying 1, 4 or msize bytes more than the clipped count allows). client half: p9p.CSession against a fake server answering msize S (same value set) and version V'; battery: Read into a 1 MiB buffer, Write of 1 MiB, " +
			"Stat/Walk/Create/Attach with strings around the limit, and a server reply of exactly the agreed msize (must be accepted). Oracle (frame-length monitor on the reference-codec parsed wire in both directions + min rule): Rversion.msize == min(P, 65536) and never more; Version() == min(65536, S); no later frame in either direction is longer than the agreed value; " +
			"exact-size frames are accepted; a first message that is not Tversion, or a P that cannot carry the 19-byte Rversion, ends the connection without any handler invocation. non-trivial = agreed msize < 65536 or a refusal; distinct by (P or S, V class, half)",
		Assumptions: []string{
			"the server's own maximum is DefaultMSize = 65536 (what ServeConn and CSession propose)",
			"a reply that cannot fit in msize may end the connection; what is judged is that no over-long frame is emitted",
		},
		Race:      true,
		RaceFiles: []string{"version.go", "channel.go", "serveconn.go", "csession.go"},
		Shards:    shards(8, 16),
		Timeout:   timeouts(12*time.Minute, 90*time.Minute),
		MinEvals:  100,
		Required:  []string{"server:handshakes", "server:refused-too-small", "server:refused-not-version", "server:exact-fit-delivered", "server:max-read", "server:oversize-result", "client:handshakes", "client:exact-fit-accepted", "client:max-read", "client:max-write", "client:long-strings", "frames_length_checked"},
		Run:       runC10,
	})
}

var c10sizes = []uint32{0, 1, 4, 6, 7, 11, 12, 17, 18, 19, 20, 21, 22, 23, 24, 25, 30, 255, 256, 4096, 8192, 65535, 65536, 65537, 1 << 20, 1<<31 - 1, 1 << 31, 1<<32 - 1}

func c10min(a uint32) int {
	if a < 65536 {
		return int(a)
	}
	return 65536
}

func runC10(w *mon.W) {
	versions := []string{"9P2000", "9P2000", "9P2000.u", "9P1999", "", strings.Repeat("v", 300), "unknown"}
	n := 0
	reps := w.Scale(1, 40)
	for rep := 0; rep < reps; rep++ {
		for _, P := range c10sizes {
			for vi, V := range versions {
				n++
				if !w.Mine(n) {
					continue
				}
				p := P
				if rep > 0 && w.Rng.Intn(3) == 0 {
					p = w.Rng.Uint32() >> uint(w.Rng.Intn(28))
				}
				c10Server(w, p, V, vi)
			}
			for vi, V := range versions[:5] {
				n++
				if !w.Mine(n) {
					continue
				}
				s := P
				if rep > 0 && w.Rng.Intn(3) == 0 {
					s = w.Rng.Uint32() >> uint(w.Rng.Intn(28))
				}
				c10Client(w, s, V, vi)
			}
		}
		n++
		if w.Mine(n) {
			c10NotVersion(w)
		}
	}
}

// ---- server half

type c10handler struct {
	*scriptHandler
}

func c10Server(w *mon.W, P uint32, V string, vi int) {
	desc := fmt.Sprintf("server half: client proposes msize=%d version=%q", P, V)
	if len(V) > 40 {
		desc = fmt.Sprintf("server half: client proposes msize=%d version=<%d bytes>", P, len(V))
	}
	w.Case("C10 %s", desc)
	w.Eval()
	bad := func(sig, format string, a ...interface{}) {
		w.Violate("mismatch", "C10:server:"+sig, fmt.Sprintf(format, a...)+"; "+desc, nil)
	}
	sh := &scriptHandler{}
	var seenWrite []byte
	sh.instant = func(msg p9p.Message) (p9p.Message, error, bool) {
		switch m := msg.(type) {
		case p9p.MessageTread:
			// the handler fills whatever count it is given - up to 1 MiB, which is already far
			// beyond any msize (a count that arrives unclipped must not cost gigabytes here)
			n := m.Count
			if n > 1<<20 {
				n = 1 << 20
			}
			if m.Fid == 2 {
				// a handler that returns more than it was asked for
				n += uint32(m.Offset)
			}
			return p9p.MessageRread{Data: make([]byte, n)}, nil, true
		case p9p.MessageTwrite:
			seenWrite = append([]byte{}, m.Data...)
			return p9p.MessageRwrite{Count: uint32(len(m.Data))}, nil, true
		case p9p.MessageTstat:
			return p9p.MessageRstat{Stat: p9p.Dir{Name: strings.Repeat("n", 60000), UID: strings.Repeat("u", 5000)}}, nil, true
		}
		return p9p.MessageRclunk{}, nil, true
	}
	h := rawSrv(sh)
	defer h.close()
	pipelined := false
	if w.Rng.Intn(4) == 0 && c10min(P) >= 64 && V == "9P2000" {
		// the client does not wait for the Rversion: its first request (a frame of exactly the
		// size that will be agreed) follows the Tversion in the same write
		pipelined = true
		M0 := c10min(P)
		first := &p9p.Fcall{Type: p9p.Twrite, Tag: 9, Message: p9p.MessageTwrite{Fid: 1, Offset: 5, Data: make([]byte, M0-23)}}
		h.sendRaw(append(refcodec.MustFrame(&p9p.Fcall{Type: p9p.Tversion, Tag: p9p.NOTAG, Message: p9p.MessageTversion{MSize: P, Version: V}}), refcodec.MustFrame(first)...))
		w.Count("server:first-request-pipelined", 1)
	} else {
		h.send(&p9p.Fcall{Type: p9p.Tversion, Tag: p9p.NOTAG, Message: p9p.MessageTversion{MSize: P, Version: V}})
	}
	if !settle() {
		w.Inconclusive("watchdog")
		return
	}
	rs := h.take()
	if len(rs) == 0 && h.served() && h.serveErr != nil && strings.Contains(h.serveErr.Error(), "deadline exceeded") {
		// ServeConn's real 1 s negotiation timeout ran out before the Tversion was served (loaded machine)
		w.Inconclusive("negotiation timeout in ServeConn before the handshake was served: %v", h.serveErr)
		return
	}
	if pipelined {
		if len(rs) != 2 || rs[1].Type != p9p.Rwrite || len(seenWrite) != c10min(P)-23 {
			bad("pipelined-first-request-lost", "a request of exactly the agreed size sent right behind the Tversion was not served: replies %s, handler saw %d bytes", describeReplies(rs), len(seenWrite))
			return
		}
		rs = rs[:1]
	}
	w.Count("server:handshakes", 1)
	want := c10min(P)
	if want < 19 {
		// cannot carry the Rversion: refused, nothing dispatched, nothing over-long emitted
		w.Count("server:refused-too-small", 1)
		w.NT(fmt.Sprintf("srv/refused/%d/%d", P, vi))
		for _, r := range rs {
			if fr, _ := refcodec.Frame(r); len(fr) > want {
				bad("frame-exceeds-proposal", "the server emitted a %d-byte frame (%s) although the client proposed msize %d", len(fr), refcodec.Describe(r), P)
				return
			}
		}
		// a request sent now must not reach the handler
		h.send(&p9p.Fcall{Type: p9p.Tclunk, Tag: 1, Message: p9p.MessageTclunk{Fid: 1}})
		settle()
		if sh.count() != 0 {
			bad("dispatch-after-refusal", "a request was dispatched to the handler although the proposed msize %d cannot carry the version reply", P)
		}
		return
	}
	if len(rs) != 1 {
		bad("no-rversion", "expected one Rversion, got %s", describeReplies(rs))
		return
	}
	rv, ok := rs[0].Message.(p9p.MessageRversion)
	if !ok {
		bad("no-rversion", "expected Rversion, got %s", refcodec.Describe(rs[0]))
		return
	}
	if int(rv.MSize) != want {
		bad("rversion-msize", "Rversion msize=%d, want min(%d, 65536)=%d", rv.MSize, P, want)
		return
	}
	M := want
	if M < 65536 {
		w.NT(fmt.Sprintf("srv/%d/%d", P, vi))
	}
	checkFrames := func(what string) bool {
		h.mu.Lock()
		defer h.mu.Unlock()
		for _, fr := range h.rawIn {
			w.Count("frames_length_checked", 1)
			if len(fr) > M {
				bad("server-frame-exceeds-msize", "%s: the server emitted a %d-byte frame, agreed msize is %d", what, len(fr), M)
				return false
			}
		}
		h.rawIn = nil
		return true
	}
	if !checkFrames("handshake") {
		return
	}
	if M < 24 {
		// too small for I/O; only the frame monitor applies
		h.send(&p9p.Fcall{Type: p9p.Tread, Tag: 1, Message: p9p.MessageTread{Fid: 1, Count: 1<<32 - 1}})
		settle()
		h.take()
		checkFrames("Tread on a tiny msize")
		return
	}
	// maximal read: whatever count reaches the handler, the reply must fit
	h.send(&p9p.Fcall{Type: p9p.Tread, Tag: 1, Message: p9p.MessageTread{Fid: 1, Count: 1<<32 - 1}})
	if !settle() {
		return
	}
	rs = h.take()
	w.Count("server:max-read", 1)
	if !checkFrames("maximal Tread") {
		return
	}
	if len(rs) != 1 || rs[0].Type != p9p.Rread {
		bad("max-read-unanswered", "a Tread with count 2^32-1 was not answered with an Rread: %s (served=%v)", describeReplies(rs), h.served())
		return
	}
	if got := len(rs[0].Message.(p9p.MessageRread).Data); got != M-11 {
		bad("max-read-size", "a Tread with count 2^32-1 returned %d bytes, the largest reply that fits msize %d carries %d", got, M, M-11)
		return
	}
	// a client frame of exactly msize must be delivered intact; msize-1 too; msize+1 must not desynchronise silently
	for _, d := range []int{-1, 0} {
		data := gen.New(w.Rng).DataN(M + d - 23)
		seenWrite = nil
		h.send(&p9p.Fcall{Type: p9p.Twrite, Tag: 2, Message: p9p.MessageTwrite{Fid: 1, Offset: 5, Data: data}})
		if !settle() {
			return
		}
		rs = h.take()
		if len(rs) != 1 || rs[0].Type != p9p.Rwrite || string(seenWrite) != string(data) {
			bad("exact-fit-not-delivered", "a %d-byte Twrite frame (msize %d) was not delivered intact to the handler: replies %s, handler saw %d bytes", M+d, M, describeReplies(rs), len(seenWrite))
			return
		}
		if d == 0 {
			w.Count("server:exact-fit-delivered", 1)
		}
	}
	// handler result larger than msize: nothing over-long may be emitted
	if w.Rng.Intn(2) == 0 {
		// ... an Rread carrying 1, 4 or msize bytes more than the (clipped) count allows
		extra := []int{1, 4, M}[w.Rng.Intn(3)]
		h.send(&p9p.Fcall{Type: p9p.Tread, Tag: 3, Message: p9p.MessageTread{Fid: 2, Offset: uint64(extra), Count: 1<<32 - 1}})
		w.Count("server:oversize-rread-result", 1)
	} else {
		h.send(&p9p.Fcall{Type: p9p.Tstat, Tag: 3, Message: p9p.MessageTstat{Fid: 1}})
	}
	if !settle() {
		return
	}
	h.take()
	w.Count("server:oversize-result", 1)
	if !checkFrames("oversize handler result") {
		return
	}
	if w.SampleDue(37) {
		w.Sample(map[string]interface{}{"half": "server", "proposed": P, "version": V[:min(len(V), 12)], "rversion_msize": rv.MSize, "max_read_reply_bytes": M - 11})
	}
}

func min(a, b int) int {
	if a < b {
		return a
	}
	return b
}

func rawSrv(handler p9p.Handler) *srvH {
	h := &srvH{serveDone: make(chan struct{}), rdDone: make(chan struct{})}
	h.cli, h.srv = wire.BPipe(1 << 21)
	h.conn = wire.NewFault(h.srv)
	h.ctx, h.cancel = context.WithCancel(context.Background())
	h.handler = handler
	if sh, ok := handler.(*scriptHandler); ok {
		h.sh = sh
	}
	go func() {
		h.serveErr = p9p.ServeConn(h.ctx, h.conn, handler)
		close(h.serveDone)
	}()
	go h.reader()
	return h
}

func c10NotVersion(w *mon.W) {
	g := gen.Small(w.Rng)
	var fc *p9p.Fcall
	for {
		fc = g.AnyFcall()
		if fc.Type != p9p.Tversion {
			break
		}
	}
	desc := fmt.Sprintf("server half: first message is %s", fc.Type)
	w.Case("C10 %s", desc)
	w.Eval()
	sh := &scriptHandler{instant: func(p9p.Message) (p9p.Message, error, bool) { return p9p.MessageRclunk{}, nil, true }}
	h := rawSrv(sh)
	defer h.close()
	h.send(fc)
	settle()
	h.send(&p9p.Fcall{Type: p9p.Tclunk, Tag: 1, Message: p9p.MessageTclunk{Fid: 1}})
	settle()
	w.Count("server:refused-not-version", 1)
	w.NT("srv/notversion/" + fc.Type.String())
	if sh.count() != 0 {
		w.Violate("mismatch", "C10:server:dispatch-without-version", fmt.Sprintf("the handler was invoked although the first message was %s, not Tversion", fc.Type), nil)
		return
	}
	q := mon.AwaitQuiesce(h.serveDone)
	if q.Hung {
		w.Violate("hang", "C10:server:not-refused", fmt.Sprintf("ServeConn keeps serving a connection whose first message was %s", fc.Type), nil)
	}
}

// ---- client half

func c10Client(w *mon.W, S uint32, V string, vi int) {
	desc := fmt.Sprintf("client half: server answers msize=%d version=%q", S, V)
	w.Case("C10 %s", desc)
	w.Eval()
	bad := func(sig, format string, a ...interface{}) {
		w.Violate("mismatch", "C10:client:"+sig, fmt.Sprintf(format, a...)+"; "+desc, nil)
	}
	h := newCliH(S, 1<<21)
	defer h.close()
	h.version = nil
	h.forceVersion = V
	h.zeroMeansZero = true
	err := h.dial()
	w.Count("client:handshakes", 1)
	if V != "9P2000" {
		if err == nil {
			// a client may refuse or accept other version strings; the msize rule applies if it accepts
		} else {
			return
		}
	}
	if err != nil {
		w.Note("CSession refused msize %d: %v", S, err)
		return
	}
	msize, _ := h.sess.Version()
	want := c10min(S)
	if msize != want {
		bad("version-msize", "Version() reports msize %d after the server answered %d (client proposed 65536): want %d", msize, S, want)
		return
	}
	M := want
	if M < 65536 {
		w.NT(fmt.Sprintf("cli/%d/%d", S, vi))
	}
	// auto-responder: answers reads with exactly count bytes, everything else minimally
	var maxFrame int
	var lastRead p9p.MessageTread
	h.mu.Lock()
	h.onReq = func(fc *p9p.Fcall) {
		fr := refcodec.MustFrame(fc)
		h.mu.Lock()
		if len(fr) > maxFrame {
			maxFrame = len(fr)
		}
		h.mu.Unlock()
		switch m := fc.Message.(type) {
		case p9p.MessageTread:
			h.mu.Lock()
			lastRead = m
			h.mu.Unlock()
			n := int(m.Count)
			if n > 1<<21 {
				n = 1 << 21
			}
			h.reply(&p9p.Fcall{Type: p9p.Rread, Tag: fc.Tag, Message: p9p.MessageRread{Data: make([]byte, n)}})
		case p9p.MessageTwrite:
			h.reply(&p9p.Fcall{Type: p9p.Rwrite, Tag: fc.Tag, Message: p9p.MessageRwrite{Count: uint32(len(m.Data))}})
		default:
			h.reply(replyFor(fc, 1))
		}
	}
	h.mu.Unlock()
	ctx := context.Background()
	call := func(f func()) bool {
		fin := make(chan struct{})
		go func() { f(); close(fin) }()
		q := mon.AwaitQuiesce(fin)
		if q.Hung {
			bad("call-hangs", "a call does not return with agreed msize %d (blocked at %s)", M, q.Sites)
			return false
		}
		return !q.Inconclusive
	}
	frameOK := func(what string) bool {
		h.mu.Lock()
		defer h.mu.Unlock()
		w.Count("frames_length_checked", 1)
		if maxFrame > M {
			bad("client-frame-exceeds-msize", "%s: the client emitted a %d-byte frame, agreed msize is %d", what, maxFrame, M)
			return false
		}
		return true
	}
	// maximal read
	var n int
	var rerr error
	if !call(func() { n, rerr = h.sess.Read(ctx, 1, make([]byte, 1<<20), 0) }) {
		return
	}
	w.Count("client:max-read", 1)
	if !frameOK("Read into a 1 MiB buffer") {
		return
	}
	if M >= 24 {
		h.mu.Lock()
		cnt := lastRead.Count
		h.mu.Unlock()
		if rerr != nil && M >= 23 {
			bad("max-read-failed", "Read into a 1 MiB buffer failed with agreed msize %d: %v", M, rerr)
			return
		}
		if int(cnt) != M-11 || n != M-11 {
			bad("max-read-count", "Read into a 1 MiB buffer asked for %d bytes and returned %d; the largest reply that fits msize %d carries %d (a reply of exactly msize must be accepted)", cnt, n, M, M-11)
			return
		}
		w.Count("client:exact-fit-accepted", 1)
	}
	// maximal write
	if !call(func() { n, rerr = h.sess.Write(ctx, 1, make([]byte, 1<<20), 0) }) {
		return
	}
	w.Count("client:max-write", 1)
	if !frameOK("Write of 1 MiB") {
		return
	}
	if M >= 24 && n != M-23 {
		bad("max-write-count", "Write of 1 MiB wrote %d bytes (err=%v); a frame of exactly msize %d carries %d", n, rerr, M, M-23)
		return
	}
	// long strings: either the frame fits or nothing is sent and the call fails
	for _, l := range []int{M - 40, M - 12, M, M + 40, 65535} {
		if l < 0 {
			l = 0
		}
		if l > 65535 {
			l = 65535
		}
		name := strings.Repeat("s", l)
		before := h.frameCount()
		var cerr error
		if !call(func() { _, _, cerr = h.sess.Create(ctx, 1, name, 0644, p9p.ORDWR) }) {
			return
		}
		if !frameOK(fmt.Sprintf("Create with a %d-byte name", l)) {
			return
		}
		sent := h.frameCount() > before
		fits := 4+1+2+4+2+l+4+1 <= M
		if M < 64 {
			// the fake server's minimal replies do not fit such an msize: only the frame-length monitor applies
			continue
		}
		if fits != sent || (fits && cerr != nil) || (!fits && cerr == nil) {
			bad("long-string-call", "Create with a %d-byte name under msize %d: frame fits=%v, a frame was sent=%v, err=%v", l, M, fits, sent, cerr)
			return
		}
		if !call(func() { _, cerr = h.sess.Attach(ctx, 2, p9p.NOFID, name, "a") }) {
			return
		}
		if !frameOK(fmt.Sprintf("Attach with a %d-byte uname", l)) {
			return
		}
		if !call(func() { _, cerr = h.sess.Walk(ctx, 1, 3, name) }) {
			return
		}
		if !frameOK(fmt.Sprintf("Walk with a %d-byte name", l)) {
			return
		}
		if !call(func() { cerr = h.sess.WStat(ctx, 1, p9p.Dir{Name: name}) }) {
			return
		}
		if !frameOK(fmt.Sprintf("WStat with a %d-byte name", l)) {
			return
		}
	}
	w.Count("client:long-strings", 1)
	if w.SampleDue(37) {
		w.Sample(map[string]interface{}{"half": "client", "server_answer": S, "version": V, "Version()": msize, "max_client_frame": maxFrame})
	}
}
