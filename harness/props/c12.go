package props

import (
	"context"
	"errors"
	"fmt"
	"io"
	"runtime"
	"strings"
	"sync"
	"sync/atomic"
	"time"

	p9p "github.com/frobnitzem/go-p9p"

	"verifharness/gen"
	"verifharness/mon"
	"verifharness/refcodec"
	"verifharness/wire"
)

// C12: client calls never hang, and the client survives a misbehaving peer.
func init() {
	register(&mon.Spec{
		ID:    "C12",
		Level: "fault_enumeration",
		Rule: "a real p9p.CSession client with P in {1,2,3,5,8,16} pending calls (unique ids) against a scripted fake server on a fault-injecting in-memory connection. Fault enumeration over a recorded fault-free run of the same scenario: the inbound stream is failed at EVERY byte offset k of the reply stream (error and EOF flavours), " +
			"the connection is closed by the peer after every number of replies, EVERY client write j is failed (0 or partial bytes passed on), the session context is cancelled after every number of replies, and every single pending call is cancelled on its own; read errors come as plain errors and as permanent net.Errors (a client that keeps reading a permanently failed connection is detected by counting its reads after the failure, not by a timer); a call with a deadline context completes, the connection's (virtual) clock then passes that deadline, and a call without deadline must still go through on a connection that honours write deadlines; while one request write is stalled inside the connection, further calls are issued and their contexts ended (or had ended before): each must return; a call cancelled unanswered is followed by 66 000 further calls (tag wrap) and then by its late reply. " +
			"Hostile-peer sampling: valid frames with unknown / repeated / NOTAG / neighbouring tags, every R- and T-type as reply to every request kind (once, or up to four times on the same tag), Rversion mid-session, the Tversion of the handshake answered with frames of other types, abnormal frames, garbage or odd Rversions, frames from the abnormal classes (length prefix 0-3, truncated body, hostile inner lengths, unknown type, oversize), malformed directory data under a CFileSys listing (entry size and inner length fields claiming anything, cut entries, garbage) and pure garbage, followed or not by the correct replies. " +
			"Oracle: the worker process survives (a crash is attributed to the logged case); at quiescence every pending call has returned; calls whose reply arrived intact before the fault return their own id, the others an error; a later call returns an error; a per-call cancel returns and leaves the other calls' results intact; a wrong-typed reply surfaces as an error. " +
			"non-trivial = >= 1 call pending at the fault / hostile frame; distinct by (fault kind, index, pending count) or (frame class, request kind, pending count)",
		Assumptions: []string{
			"the in-memory connection has virtual deadlines: 'returns within bounded time' is judged as 'has returned when the process is quiescent after the fault', never by a timer",
			"after an injected write failure only the failing call must return at once; the others must return once the connection is then closed",
			"exhaustive over (scenario, fault index) for the generated scenarios; scenarios and hostile frames are sampled",
		},
		Race:      true,
		RaceFiles: []string{"transport.go", "csession.go", "channel.go"},
		Shards:    shards(8, 16),
		Timeout:   timeouts(12*time.Minute, 90*time.Minute),
		MinEvals:  200,
		Required:  []string{"fault:read-error", "fault:read-eof", "fault:peer-close", "fault:write-fail", "fault:ctx-cancel", "fault:call-cancel", "hostile:unknown-tag", "hostile:repeated-tag", "hostile:wrong-type", "hostile:abnormal-frame", "hostile:garbage", "hostile:overlong-rread", "hostile:dir-data", "hostile:handshake", "hostile:wrong-type-repeated", "fault:local-failure", "fault:read-neterror", "fault:deadline-then-plain", "fault:cancel-while-writer-busy", "fault:cancel-then-long-history", "later_call_checked", "pending_calls_returned"},
		Run:       runC12,
	})
}

type c12call struct {
	uid    int
	kind   callKind
	ctx    context.Context
	cancel context.CancelFunc
	res    callRes
	done   bool
	req    *p9p.Fcall
}

type c12env struct {
	w     *mon.W
	h     *cliH
	mu    sync.Mutex
	calls []*c12call
	desc  string
}

func (e *c12env) launch(n int, kinds []callKind) []*c12call {
	var cs []*c12call
	for i := 0; i < n; i++ {
		c := &c12call{uid: len(e.calls) + 1, kind: kinds[i%len(kinds)]}
		c.ctx, c.cancel = context.WithCancel(context.Background())
		e.calls = append(e.calls, c)
		cs = append(cs, c)
		go func(c *c12call) {
			r := doCall(c.ctx, e.h.sess, c.kind, c.uid)
			e.mu.Lock()
			c.res, c.done = r, true
			e.mu.Unlock()
		}(c)
	}
	return cs
}

func (e *c12env) bad(kind, sig, format string, a ...interface{}) {
	e.w.Violate(kind, "C12:"+sig, fmt.Sprintf(format, a...)+"; "+e.desc, map[string]interface{}{"case": e.desc})
}

// attach the requests that arrived to the calls
func (e *c12env) absorb(cs []*c12call) bool {
	reqs := e.h.take()
	if len(reqs) != len(cs) {
		e.bad("mismatch", "request-count", "%d calls issued, %d requests arrived", len(cs), len(reqs))
		return false
	}
	by := map[int]*c12call{}
	for _, c := range cs {
		by[c.uid] = c
	}
	for _, rq := range reqs {
		c := by[uidOfRequest(rq)]
		if c == nil {
			e.bad("mismatch", "unknown-request", "request %v does not belong to a pending call", rq)
			return false
		}
		c.req = rq
	}
	return true
}

// allReturned checks at quiescence that every call has returned.
func (e *c12env) allReturned(what string) bool {
	e.mu.Lock()
	defer e.mu.Unlock()
	for _, c := range e.calls {
		if !c.done {
			e.bad("hang", "call-did-not-return:"+strings.SplitN(what, " ", 2)[0], "%s: call uid=%d has not returned although the process is quiescent", what, c.uid)
			return false
		}
	}
	e.w.Count("pending_calls_returned", int64(len(e.calls)))
	return true
}

// laterCall: a call issued after the session broke must return an error.
func (e *c12env) laterCall(what string) bool {
	var r callRes
	fin := make(chan struct{})
	go func() { r = doCall(context.Background(), e.h.sess, ckStat, 999999); close(fin) }()
	q := mon.AwaitQuiesce(fin)
	if q.Hung {
		e.bad("hang", "later-call-hangs:"+strings.SplitN(what, " ", 2)[0], "%s: a call issued afterwards does not return (blocked at %s)", what, q.Sites)
		return false
	}
	if q.Inconclusive {
		e.w.Inconclusive("watchdog on later call")
		return false
	}
	e.w.Count("later_call_checked", 1)
	if r.err == nil {
		e.bad("mismatch", "later-call-succeeds:"+strings.SplitN(what, " ", 2)[0], "%s: a call issued afterwards returned success (uid %d) without any reply having been sent", what, r.uid)
		return false
	}
	return true
}

func newC12(w *mon.W, desc string) *c12env {
	h := newCliH(0, 1<<20)
	if err := h.dial(); err != nil {
		w.Inconclusive("dial: %v", err)
		h.close()
		return nil
	}
	return &c12env{w: w, h: h, desc: desc}
}

var c12kinds = []callKind{ckRead, ckStat, ckWalk, ckOpen, ckAttach, ckWrite, ckCreate}

func runC12(w *mon.W) {
	// ---- fault enumeration
	scen := w.Scale(6, 120)
	idx := 0
	for s := 0; s < scen; s++ {
		P := []int{1, 2, 3, 5, 8, 16}[s%6]
		// recorded fault-free run: how many reply bytes, how many client writes
		replyBytes, writes := c12Record(w, P)
		if replyBytes == 0 {
			continue
		}
		// read faults at every byte offset (quick: every offset for small P, a stride for large)
		stride := 1
		if !w.Thorough() && replyBytes > 120 {
			stride = replyBytes/120 + 1
		}
		for k := 0; k <= replyBytes; k += stride {
			for _, eof := range []bool{false, true} {
				idx++
				if w.Mine(idx) {
					c12ReadFault(w, P, k, eof, s)
				}
			}
		}
		for k := 0; k <= P; k++ {
			idx++
			if w.Mine(idx) {
				c12PeerClose(w, P, k, s)
			}
			idx++
			if w.Mine(idx) {
				c12CtxCancel(w, P, k, s)
			}
		}
		for j := 1; j <= writes; j++ {
			for _, partial := range []int{0, 3, 9} {
				idx++
				if w.Mine(idx) {
					c12WriteFault(w, P, j, partial, s)
				}
			}
		}
		for i := 0; i < P; i++ {
			idx++
			if w.Mine(idx) {
				c12CallCancel(w, P, i, s)
			}
		}
		for variant := 0; variant < 3; variant++ {
			idx++
			if w.Mine(idx) {
				c12LocalFailure(w, P, variant, s)
			}
		}
		for variant := 0; variant < 4; variant++ {
			idx++
			if w.Mine(idx) {
				c12DeadlineThenPlain(w, P, variant, s)
			}
		}
		for variant := 0; variant < 6; variant++ {
			idx++
			if w.Mine(idx) {
				c12CancelWhileWriterBusy(w, P, variant, s)
			}
		}
	}
	// ---- hostile peer
	n := w.Scale(700, 60000)
	for i := 0; i < n; i++ {
		idx++
		if w.Mine(idx) {
			c12Hostile(w, i)
		}
	}
	for i := 0; i < w.Scale(200, 20000); i++ {
		idx++
		if w.Mine(idx) {
			c12HostileHandshake(w, i)
		}
	}
	for i := 0; i < w.Scale(1, 2)*w.NShards; i++ {
		if w.Mine(i) && i >= 5 && i < 5+w.Scale(1, 3) {
			c12CancelThenLongHistory(w, i)
		}
	}
}

func c12Record(w *mon.W, P int) (replyBytes, writes int) {
	e := newC12(w, fmt.Sprintf("recording run P=%d", P))
	if e == nil {
		return 0, 0
	}
	defer e.h.close()
	_, w0 := e.h.fault.Counts()
	cs := e.launch(P, c12kinds)
	if !settle() || !e.absorb(cs) {
		return 0, 0
	}
	_, w1 := e.h.fault.Counts()
	for _, c := range cs {
		b := refcodec.MustFrame(replyFor(c.req, c.uid))
		replyBytes += len(b)
	}
	return replyBytes, w1 - w0
}

// stream of replies in call order; returns per call the end offset of its reply
func c12Replies(cs []*c12call) ([]byte, []int) {
	var stream []byte
	var ends []int
	for _, c := range cs {
		stream = append(stream, refcodec.MustFrame(replyFor(c.req, c.uid))...)
		ends = append(ends, len(stream))
	}
	return stream, ends
}

func c12ReadFault(w *mon.W, P, k int, eof bool, scen int) {
	kind := "read-error"
	if eof {
		kind = "read-eof"
	}
	// the error flavour alternates between a plain error and a permanent network error
	// (a net.Error that is neither a timeout nor temporary, like ECONNRESET on a socket)
	netErr := !eof && k%2 == 1
	if netErr {
		kind = "read-neterror"
	}
	desc := fmt.Sprintf("scenario %d: %d pending calls, inbound stream fails (%s) at reply byte %d", scen, P, kind, k)
	w.Case("C12 %s", desc)
	e := newC12(w, desc)
	if e == nil {
		return
	}
	defer e.h.close()
	w.Eval()
	w.Count("fault:"+kind, 1)
	cs := e.launch(P, c12kinds)
	if !settle() || !e.absorb(cs) {
		return
	}
	in0, _ := e.h.fault.Counts()
	e.h.fault.ReadFailAt = in0 + k
	if eof {
		e.h.fault.ReadErr = io.EOF
	} else if netErr {
		e.h.fault.ReadErr = &wire.NetErr{Msg: "read mem: connection reset by peer"}
	} else {
		e.h.fault.ReadErr = errors.New("injected read error")
	}
	stream, ends := c12Replies(cs)
	e.h.replyRaw(stream)
	// quiescence - unless the client spins on the failed connection (a livelock never gets quiet)
	start := time.Now()
	for i := 0; ; i++ {
		if q, _ := mon.QuietNow(); q {
			break
		}
		if n := e.h.fault.ReadsAfterFail(); n > 20000 {
			e.bad("hang", "client-spins-on-failed-connection", "the connection's reads fail permanently (%v) but the client keeps reading: %d reads after the failure, pending calls never return", e.h.fault.ReadErr, n)
			return
		}
		if i < 50 {
			runtime.Gosched()
		} else {
			time.Sleep(20 * time.Microsecond)
		}
		if i%1000 == 999 && time.Since(start) > mon.Watchdog {
			w.Inconclusive("watchdog")
			return
		}
	}
	if !e.allReturned("read fault") {
		return
	}
	e.mu.Lock()
	for i, c := range cs {
		intact := ends[i] <= k
		if intact && (c.res.err != nil || c.res.uid != c.uid) {
			e.mu.Unlock()
			e.bad("mismatch", "intact-reply-lost", "the reply of call uid=%d arrived completely before the fault (ends at byte %d) but the call returned uid=%d err=%v", c.uid, ends[i], c.res.uid, c.res.err)
			return
		}
		if !intact && c.res.err == nil {
			e.mu.Unlock()
			e.bad("mismatch", "success-without-reply", "call uid=%d returned success (uid %d) although its reply (bytes %d..%d) did not arrive completely", c.uid, c.res.uid, ends[i]-len(refcodec.MustFrame(replyFor(c.req, c.uid))), ends[i])
			return
		}
	}
	e.mu.Unlock()
	if !e.laterCall("read fault") {
		return
	}
	w.NT(fmt.Sprintf("%s/%d/%d", kind, P, k))
	if w.SampleDue(211) {
		w.Sample(map[string]interface{}{"fault": kind, "pending_calls": P, "reply_stream_bytes": len(stream), "fail_at_byte": k})
	}
}

func c12PeerClose(w *mon.W, P, k, scen int) {
	desc := fmt.Sprintf("scenario %d: %d pending calls, peer closes after %d replies", scen, P, k)
	w.Case("C12 %s", desc)
	e := newC12(w, desc)
	if e == nil {
		return
	}
	defer e.h.close()
	w.Eval()
	w.Count("fault:peer-close", 1)
	cs := e.launch(P, c12kinds)
	if !settle() || !e.absorb(cs) {
		return
	}
	for _, c := range cs[:k] {
		e.h.reply(replyFor(c.req, c.uid))
	}
	settle()
	e.h.srv.Close()
	if !settle() {
		w.Inconclusive("watchdog")
		return
	}
	if !e.allReturned("peer-close") {
		return
	}
	e.mu.Lock()
	for i, c := range cs {
		if i < k && (c.res.err != nil || c.res.uid != c.uid) {
			e.mu.Unlock()
			e.bad("mismatch", "intact-reply-lost", "call uid=%d was answered before the close but returned uid=%d err=%v", c.uid, c.res.uid, c.res.err)
			return
		}
		if i >= k && c.res.err == nil {
			e.mu.Unlock()
			e.bad("mismatch", "success-without-reply", "call uid=%d returned success without a reply", c.uid)
			return
		}
	}
	e.mu.Unlock()
	if !e.laterCall("peer-close") {
		return
	}
	w.NT(fmt.Sprintf("close/%d/%d", P, k))
}

func c12CtxCancel(w *mon.W, P, k, scen int) {
	desc := fmt.Sprintf("scenario %d: %d pending calls, session context cancelled after %d replies", scen, P, k)
	w.Case("C12 %s", desc)
	e := newC12(w, desc)
	if e == nil {
		return
	}
	defer e.h.close()
	w.Eval()
	w.Count("fault:ctx-cancel", 1)
	cs := e.launch(P, c12kinds)
	if !settle() || !e.absorb(cs) {
		return
	}
	for _, c := range cs[:k] {
		e.h.reply(replyFor(c.req, c.uid))
	}
	settle()
	e.h.cancel()
	if !settle() {
		w.Inconclusive("watchdog")
		return
	}
	if !e.allReturned("ctx-cancel") {
		return
	}
	e.mu.Lock()
	for i, c := range cs {
		if i < k && (c.res.err != nil || c.res.uid != c.uid) {
			e.mu.Unlock()
			e.bad("mismatch", "intact-reply-lost", "call uid=%d was answered before the cancellation but returned uid=%d err=%v", c.uid, c.res.uid, c.res.err)
			return
		}
		if i >= k && c.res.err == nil {
			e.mu.Unlock()
			e.bad("mismatch", "success-without-reply", "call uid=%d returned success without a reply", c.uid)
			return
		}
	}
	e.mu.Unlock()
	if !e.laterCall("ctx-cancel") {
		return
	}
	w.NT(fmt.Sprintf("ctx/%d/%d", P, k))
}

func c12WriteFault(w *mon.W, P, j, partial, scen int) {
	desc := fmt.Sprintf("scenario %d: %d calls, client write #%d fails after %d bytes", scen, P, j, partial)
	w.Case("C12 %s", desc)
	e := newC12(w, desc)
	if e == nil {
		return
	}
	defer e.h.close()
	w.Eval()
	w.Count("fault:write-fail", 1)
	_, w0 := e.h.fault.Counts()
	e.h.fault.WriteFailAt = w0 + j
	e.h.fault.WritePartial = partial
	cs := e.launch(P, c12kinds)
	if !settle() {
		w.Inconclusive("watchdog")
		return
	}
	// at least one call must have returned with an error by now (the one whose write failed)
	e.mu.Lock()
	failed := 0
	for _, c := range cs {
		if c.done {
			if c.res.err == nil {
				e.mu.Unlock()
				e.bad("mismatch", "success-without-reply", "call uid=%d returned success although no reply was ever sent", c.uid)
				return
			}
			failed++
		}
	}
	e.mu.Unlock()
	if failed == 0 {
		e.bad("hang", "write-failure-not-reported", "client write #%d failed but no call returned an error at quiescence", j)
		return
	}
	// the connection is now closed by the peer: everything still pending must return
	e.h.srv.Close()
	if !settle() {
		w.Inconclusive("watchdog")
		return
	}
	if !e.allReturned("write-fail then close") {
		return
	}
	if !e.laterCall("write-fail") {
		return
	}
	w.NT(fmt.Sprintf("write/%d/%d/%d", P, j, partial))
}

// c12CancelWhileWriterBusy: the transport is stuck writing one call's request (the peer does
// not drain); other calls are issued meanwhile and cannot even be handed to the transport.
// Each of them must still return promptly when its own context ends, also one whose context
// had ended before it was issued. Afterwards the stalled write completes and everybody
// else gets its own reply.
func c12CancelWhileWriterBusy(w *mon.W, P, variant, scen int) {
	desc := fmt.Sprintf("scenario %d: %d pending calls, a request write stalls, further calls are issued and cancelled meanwhile (variant %d)", scen, P, variant)
	w.Case("C12 %s", desc)
	e := newC12(w, desc)
	if e == nil {
		return
	}
	defer e.h.close()
	w.Eval()
	w.Count("fault:cancel-while-writer-busy", 1)
	cs := e.launch(P, c12kinds)
	if !settle() || !e.absorb(cs) {
		return
	}
	// the next write parks (and then goes through: nothing fails in this scenario)
	_, w0 := e.h.fault.Counts()
	e.h.fault.WriteFailAt = w0 + 1
	e.h.fault.WriteFailOnce = true
	e.h.fault.WritePassAfterGate = true
	e.h.fault.WriteGate = make(chan struct{})
	e.h.fault.WriteParked = make(chan struct{})
	gateOpen := false
	openGate := func() {
		if !gateOpen {
			gateOpen = true
			close(e.h.fault.WriteGate)
		}
	}
	defer openGate()
	a := e.launch(1, []callKind{ckStat})[0]
	if q := mon.AwaitQuiesce(e.h.fault.WriteParked); !q.Done {
		w.Inconclusive("the stalled write was never reached")
		return
	}
	// calls issued while the transport is busy
	n := 1 + variant%3
	var late []*c12call
	for i := 0; i < n; i++ {
		c := &c12call{uid: len(e.calls) + 1, kind: c12kinds[i%len(c12kinds)]}
		c.ctx, c.cancel = context.WithCancel(context.Background())
		if variant >= 3 && i == 0 {
			c.cancel() // already ended when issued
		}
		e.calls = append(e.calls, c)
		late = append(late, c)
		go func(c *c12call) {
			r := doCall(c.ctx, e.h.sess, c.kind, c.uid)
			e.mu.Lock()
			c.res, c.done = r, true
			e.mu.Unlock()
		}(c)
	}
	if !settle() {
		w.Inconclusive("watchdog")
		return
	}
	for _, c := range late {
		c.cancel()
	}
	if !settle() {
		w.Inconclusive("watchdog")
		return
	}
	e.mu.Lock()
	for _, c := range late {
		if !c.done {
			e.mu.Unlock()
			e.bad("hang", "cancelled-call-did-not-return:writer-busy", "call uid=%d, issued while the transport was writing another request, has not returned although its context ended", c.uid)
			return
		}
		if c.res.err == nil {
			e.mu.Unlock()
			e.bad("mismatch", "success-without-reply", "call uid=%d returned success although no request of it was ever answered", c.uid)
			return
		}
	}
	if a.done {
		e.mu.Unlock()
		e.bad("mismatch", "cancel-disturbed-other-call", "the call whose request is being written returned (uid=%d err=%v) when other calls were cancelled", a.res.uid, a.res.err)
		return
	}
	e.mu.Unlock()
	// the peer drains again
	openGate()
	if !settle() {
		w.Inconclusive("watchdog")
		return
	}
	reqs := e.h.take()
	for _, rq := range reqs {
		if uidOfRequest(rq) == a.uid {
			a.req = rq
		}
		// a cancelled call's request may or may not reach the wire afterwards; it is answered like any other
		e.h.reply(replyFor(rq, uidOfRequest(rq)))
	}
	if a.req == nil {
		e.bad("mismatch", "request-lost", "the request whose write had stalled never arrived after the stall ended (%d requests arrived)", len(reqs))
		return
	}
	for _, c := range cs {
		e.h.reply(replyFor(c.req, c.uid))
	}
	if !settle() {
		w.Inconclusive("watchdog")
		return
	}
	if !e.allReturned("cancel while writer busy") {
		return
	}
	e.mu.Lock()
	defer e.mu.Unlock()
	for _, c := range append(append([]*c12call{}, cs...), a) {
		if c.res.err != nil || c.res.uid != c.uid {
			e.bad("mismatch", "cancel-disturbed-other-call", "after calls were cancelled while the writer was busy, call uid=%d returned uid=%d err=%v", c.uid, c.res.uid, c.res.err)
			return
		}
	}
	w.NT(fmt.Sprintf("cancelbusy/%d/%d", P, variant))
}

func c12CallCancel(w *mon.W, P, i, scen int) {
	desc := fmt.Sprintf("scenario %d: %d pending calls, call #%d cancelled on its own", scen, P, i)
	w.Case("C12 %s", desc)
	e := newC12(w, desc)
	if e == nil {
		return
	}
	defer e.h.close()
	w.Eval()
	w.Count("fault:call-cancel", 1)
	cs := e.launch(P, c12kinds)
	if !settle() || !e.absorb(cs) {
		return
	}
	cs[i].cancel()
	if !settle() {
		w.Inconclusive("watchdog")
		return
	}
	e.mu.Lock()
	if !cs[i].done {
		e.mu.Unlock()
		e.bad("hang", "cancelled-call-did-not-return", "call uid=%d did not return after its own context was cancelled", cs[i].uid)
		return
	}
	for k, c := range cs {
		if k != i && c.done {
			e.mu.Unlock()
			e.bad("mismatch", "cancel-disturbed-other-call", "cancelling call uid=%d made call uid=%d return (uid=%d err=%v)", cs[i].uid, c.uid, c.res.uid, c.res.err)
			return
		}
	}
	e.mu.Unlock()
	// answer everybody (the cancelled one late): the others get their own results
	for _, c := range cs {
		e.h.reply(replyFor(c.req, c.uid))
	}
	if !settle() {
		w.Inconclusive("watchdog")
		return
	}
	if !e.allReturned("call-cancel") {
		return
	}
	e.mu.Lock()
	for k, c := range cs {
		if k != i && (c.res.err != nil || c.res.uid != c.uid) {
			e.mu.Unlock()
			e.bad("mismatch", "cancel-disturbed-other-call", "after call uid=%d was cancelled, call uid=%d returned uid=%d err=%v", cs[i].uid, c.uid, c.res.uid, c.res.err)
			return
		}
	}
	e.mu.Unlock()
	w.NT(fmt.Sprintf("callcancel/%d/%d", P, i))
}

// c12LocalFailure: a call that fails on its own before anything is sent (context already
// ended, or a request that cannot fit in msize) must not disturb the calls in flight.
func c12LocalFailure(w *mon.W, P, variant, scen int) {
	what := []string{"a call with an already-cancelled context", "a call whose request is larger than msize", "both"}[variant]
	desc := fmt.Sprintf("scenario %d: %d pending calls, then %s", scen, P, what)
	w.Case("C12 %s", desc)
	e := newC12(w, desc)
	if e == nil {
		return
	}
	defer e.h.close()
	w.Eval()
	w.Count("fault:local-failure", 1)
	cs := e.launch(P, c12kinds)
	if !settle() || !e.absorb(cs) {
		return
	}
	local := func(f func() error) bool {
		var err error
		fin := make(chan struct{})
		go func() { err = f(); close(fin) }()
		q := mon.AwaitQuiesce(fin)
		if q.Hung {
			e.bad("hang", "local-failure-hangs", "%s does not return (blocked at %s)", what, q.Sites)
			return false
		}
		if q.Inconclusive {
			return false
		}
		if err == nil {
			e.bad("mismatch", "local-failure-succeeds", "%s returned success", what)
			return false
		}
		return true
	}
	if variant == 0 || variant == 2 {
		for k := 0; k < 20; k++ { // the cancellation may be noticed before or after the hand-off to the transport
			cctx, cancel := context.WithCancel(context.Background())
			cancel()
			if !local(func() error { _, err := e.h.sess.Stat(cctx, 777); return err }) {
				return
			}
		}
	}
	if variant == 1 || variant == 2 {
		big := strings.Repeat("n", 65535)
		if !local(func() error {
			_, _, err := e.h.sess.Create(context.Background(), 778, big, 0644, p9p.OREAD)
			return err
		}) {
			return
		}
	}
	if !settle() {
		return
	}
	e.h.take() // a pre-cancelled call may or may not have reached the wire
	// the calls in flight are answered now: each must get its own result
	e.mu.Lock()
	for _, c := range cs {
		if c.done {
			e.mu.Unlock()
			e.bad("mismatch", "local-failure-disturbed-other-call", "%s made pending call uid=%d return (uid=%d err=%v)", what, c.uid, c.res.uid, c.res.err)
			return
		}
	}
	e.mu.Unlock()
	for _, c := range cs {
		e.h.reply(replyFor(c.req, c.uid))
	}
	if !settle() {
		return
	}
	e.mu.Lock()
	defer e.mu.Unlock()
	for _, c := range cs {
		if !c.done || c.res.err != nil || c.res.uid != c.uid {
			e.bad("mismatch", "local-failure-disturbed-other-call", "after %s, pending call uid=%d returned done=%v uid=%d err=%v", what, c.uid, c.done, c.res.uid, c.res.err)
			return
		}
	}
	w.NT(fmt.Sprintf("local/%d/%d", P, variant))
}

// c12DeadlineThenPlain: the connection honours write deadlines against a virtual clock. A
// call whose context carries a deadline completes in time; later - the clock is past that
// deadline, but well within the library's own default timeout - calls without a deadline
// are made. The first call's ended context must not disturb them.
func c12DeadlineThenPlain(w *mon.W, P, variant, scen int) {
	desc := fmt.Sprintf("scenario %d: %d pending calls; a call with a deadline context completes, the connection clock passes that deadline, then a plain call (variant %d)", scen, P, variant)
	w.Case("C12 %s", desc)
	e := newC12(w, desc)
	if e == nil {
		return
	}
	defer e.h.close()
	w.Eval()
	w.Count("fault:deadline-then-plain", 1)
	var skew int64
	e.h.cli.Clock = func() time.Time { return time.Now().Add(time.Duration(atomic.LoadInt64(&skew))) }
	cs := e.launch(P, c12kinds)
	if !settle() || !e.absorb(cs) {
		return
	}
	one := func(ctx context.Context, uid int, what string) (ok, inconclusive bool) {
		var r callRes
		fin := make(chan struct{})
		go func() { r = doCall(ctx, e.h.sess, ckStat, uid); close(fin) }()
		if !settle() {
			return false, true
		}
		reqs := e.h.take()
		select {
		case <-fin:
			if ctx.Err() != nil {
				return false, true // the real deadline was missed (loaded machine): not judged
			}
			e.bad("mismatch", "call-disturbed-by-earlier-deadline", "%s returned without its request having been answered: uid=%d err=%v (requests on the wire: %d)", what, r.uid, r.err, len(reqs))
			return false, false
		default:
		}
		if len(reqs) != 1 || uidOfRequest(reqs[0]) != uid {
			e.bad("mismatch", "request-count", "%s: %d requests arrived", what, len(reqs))
			return false, false
		}
		e.h.reply(replyFor(reqs[0], uid))
		q := mon.AwaitQuiesce(fin)
		if !q.Done {
			if q.Hung {
				e.bad("hang", "call-did-not-return:deadline", "%s did not return after its reply (blocked at %s)", what, q.Sites)
				return false, false
			}
			return false, true
		}
		if r.err != nil || r.uid != uid {
			if ctx.Err() != nil {
				return false, true
			}
			e.bad("mismatch", "call-disturbed-by-earlier-deadline", "%s returned uid=%d err=%v", what, r.uid, r.err)
			return false, false
		}
		return true, false
	}
	dctx, dcancel := context.WithDeadline(context.Background(), time.Now().Add(10*time.Second))
	defer dcancel()
	if variant%2 == 1 {
		var c2 context.CancelFunc
		dctx, c2 = context.WithTimeout(dctx, 8*time.Second) // nested: the nearer deadline counts
		defer c2()
	}
	ok, inc := one(dctx, 700, "the call with a deadline context")
	if inc {
		w.Inconclusive("deadline scenario: watchdog or real deadline missed")
		return
	}
	if !ok {
		return
	}
	if variant >= 2 {
		dcancel()
	}
	atomic.StoreInt64(&skew, int64(15*time.Second)) // time passes: beyond that deadline, within the library's default of 30 s
	for i := 0; i < 2; i++ {
		ok, inc = one(context.Background(), 701+i, fmt.Sprintf("plain call #%d issued after the earlier call's deadline has passed", i+1))
		if inc {
			w.Inconclusive("deadline scenario: watchdog")
			return
		}
		if !ok {
			return
		}
	}
	// the pending calls are answered now: each must get its own result
	for _, c := range cs {
		e.h.reply(replyFor(c.req, c.uid))
	}
	if !settle() {
		return
	}
	e.mu.Lock()
	defer e.mu.Unlock()
	for _, c := range cs {
		if !c.done || c.res.err != nil || c.res.uid != c.uid {
			e.bad("mismatch", "call-disturbed-by-earlier-deadline", "pending call uid=%d returned done=%v uid=%d err=%v", c.uid, c.done, c.res.uid, c.res.err)
			return
		}
	}
	sets, _ := e.h.cli.DeadlineStats()
	w.Max("write_deadline_sets", int64(sets))
	w.NT(fmt.Sprintf("deadline/%d/%d", P, variant))
}

// c12CancelThenLongHistory: a call is cancelled by its own context while the peer has not
// answered it; 66 000 further calls follow on the same session (the tag counter wraps) and
// none of them may be disturbed: not by the cancelled call's tag being handed out again, and
// not by its reply when that finally arrives.
func c12CancelThenLongHistory(w *mon.W, no int) {
	desc := fmt.Sprintf("long history #%d: a call is cancelled unanswered, then 66000 calls, then its late reply", no)
	w.Case("C12 %s", desc)
	e := newC12(w, desc)
	if e == nil {
		return
	}
	defer e.h.close()
	w.Eval()
	w.Count("fault:cancel-then-long-history", 1)
	cs := e.launch(1, []callKind{ckStat})
	if !settle() || !e.absorb(cs) {
		return
	}
	x := cs[0]
	x.cancel()
	if !settle() {
		return
	}
	var mu sync.Mutex
	reissued := 0
	e.h.mu.Lock()
	e.h.onReq = func(fc *p9p.Fcall) {
		if fc.Tag == x.req.Tag {
			// the unanswered call's tag on a new request: the peer, which still owes a reply on that
			// tag, answers the old request first
			mu.Lock()
			reissued++
			mu.Unlock()
			e.h.reply(replyFor(x.req, x.uid))
		}
		e.h.reply(replyFor(fc, uidOfRequest(fc)))
	}
	e.h.mu.Unlock()
	done := make(chan struct{})
	bad := ""
	go func() {
		defer close(done)
		for uid := 1000; uid < 1000+66000; uid++ {
			r := doCall(context.Background(), e.h.sess, callKind(uid%int(nCallKinds)), uid)
			if r.err != nil || r.uid != uid {
				bad = fmt.Sprintf("call uid=%d (%d calls after the cancelled one) returned uid=%d err=%v", uid, uid-1000, r.uid, r.err)
				return
			}
		}
	}()
	q := mon.AwaitQuiesceLong(done, 20*time.Minute)
	if q.Hung {
		e.bad("hang", "call-did-not-return:long-history", "a call of the long history does not return; blocked at %s", q.Sites)
		return
	}
	if !q.Done {
		w.Inconclusive("watchdog")
		return
	}
	mu.Lock()
	n := reissued
	mu.Unlock()
	if bad != "" {
		e.bad("mismatch", "cancel-disturbed-other-call", "%s; the cancelled call's tag %d was put on %d new request(s) while its reply was still owed", bad, x.req.Tag, n)
		return
	}
	// the late reply: nobody is waiting for it any more, and nobody may be hit by it
	e.h.reply(replyFor(x.req, x.uid))
	r := doCall(context.Background(), e.h.sess, ckStat, 99999)
	if r.err != nil || r.uid != 99999 {
		e.bad("mismatch", "cancel-disturbed-other-call", "after the cancelled call's late reply a new call returned uid=%d err=%v", r.uid, r.err)
		return
	}
	w.NT(fmt.Sprintf("longhistory/%d", no))
}

// ---- hostile peer

// c12HostileHandshake: the peer answers the client's Tversion with anything but a proper
// Rversion. CSession must return (an error, or a session if the answer happens to be
// acceptable) and the process must survive.
func c12HostileHandshake(w *mon.W, no int) {
	r := w.Rng
	g := gen.Small(r)
	g.MaxStr, g.MaxData, g.MaxList = 20, 40, 3
	var raw []byte
	class := ""
	switch r.Intn(5) {
	case 0, 1:
		// a well-formed frame of some other type on the version tag
		var m p9p.Message
		for {
			m = g.Msg(gen.Kinds[r.Intn(len(gen.Kinds))])
			if m.Type() != p9p.Rversion {
				break
			}
		}
		tag := p9p.NOTAG
		if r.Intn(4) == 0 {
			tag = p9p.Tag(r.Intn(65536))
		}
		raw = refcodec.MustFrame(&p9p.Fcall{Type: m.Type(), Tag: tag, Message: m})
		class = "other-type:" + m.Type().String()
	case 2:
		f := genFrameC03(w, g, 65536, false)
		raw = f.bytes
		class = "frame-class:" + f.class
	case 3:
		raw = make([]byte, 1+r.Intn(40))
		r.Read(raw)
		class = "garbage"
	default:
		// an Rversion with odd contents
		ms := []uint32{0, 1, 18, 19, 23, 24, 1 << 31, 1<<32 - 1}[r.Intn(8)]
		raw = refcodec.MustFrame(&p9p.Fcall{Type: p9p.Rversion, Tag: p9p.NOTAG, Message: p9p.MessageRversion{MSize: ms, Version: []string{"", "unknown", "9P2000.u", "9P2000", g.StrN(300)}[r.Intn(5)]}})
		class = "odd-rversion"
	}
	desc := fmt.Sprintf("hostile handshake #%d: Tversion answered with %s (%s)", no, class, hexHead(raw))
	w.Case("C12 %s", desc)
	w.Eval()
	w.Count("hostile:handshake", 1)
	h := newCliH(0, 1<<20)
	defer h.close()
	h.handshakeRaw = raw
	fin := make(chan struct{})
	var derr error
	go func() { derr = h.dial(); close(fin) }()
	if !settle() {
		w.Inconclusive("watchdog")
		return
	}
	select {
	case <-fin:
	default:
		// the answer may have been an incomplete frame: the peer now goes away
		h.srv.Close()
		if q := mon.AwaitQuiesce(fin); !q.Done {
			if q.Hung {
				w.Violate("hang", "C12:handshake-hangs:"+q.Sites, fmt.Sprintf("%s: CSession does not return after the peer closed; blocked at %s", desc, q.Sites), nil)
			}
			return
		}
	}
	if derr == nil && !strings.HasPrefix(class, "odd-rversion") && !strings.HasPrefix(class, "frame-class") {
		w.Violate("mismatch", "C12:handshake-accepted", fmt.Sprintf("%s: CSession reported success", desc), nil)
		return
	}
	w.NT("handshake/" + class)
}

func c12Hostile(w *mon.W, no int) {
	r := w.Rng
	P := 1 + r.Intn(6)
	class := []string{"unknown-tag", "repeated-tag", "wrong-type", "abnormal-frame", "garbage", "notag", "rversion", "neighbour-tag", "t-message", "overlong-rread", "cfs-overlong-rread"}[r.Intn(11)]
	if class == "cfs-overlong-rread" {
		c12OverlongDirRead(w, no)
		return
	}
	follow := r.Intn(2) == 0 // send the correct replies afterwards
	desc := fmt.Sprintf("hostile #%d: %d pending calls, class=%s, correct replies afterwards=%v", no, P, class, follow)
	e := newC12(w, desc)
	if e == nil {
		return
	}
	defer e.h.close()
	w.Eval()
	cs := e.launch(P, c12kinds[r.Intn(len(c12kinds)):])
	if !settle() || !e.absorb(cs) {
		return
	}
	victim := cs[r.Intn(len(cs))]
	g := gen.Small(r)
	g.MaxStr, g.MaxData, g.MaxList = 20, 40, 3
	var frames [][]byte
	wrongTyped := map[int]bool{} // uid -> answered with a reply of the wrong type
	answered := map[int]bool{}   // uid -> answered correctly by a hostile-phase frame
	killsStream := false
	mk := func(tag p9p.Tag, m p9p.Message) []byte {
		return refcodec.MustFrame(&p9p.Fcall{Type: m.Type(), Tag: tag, Message: m})
	}
	switch class {
	case "unknown-tag":
		frames = append(frames, mk(victim.req.Tag+1000+p9p.Tag(r.Intn(1000)), replyFor(victim.req, 424242).Message))
		w.Count("hostile:unknown-tag", 1)
	case "neighbour-tag":
		t := victim.req.Tag + 1
		if r.Intn(2) == 0 {
			t = victim.req.Tag - 1
		}
		taken := false
		for _, c := range cs {
			if c.req.Tag == t {
				taken = true
			}
		}
		if taken {
			t = victim.req.Tag + 5000
		}
		frames = append(frames, mk(t, replyFor(victim.req, 424242).Message))
		w.Count("hostile:unknown-tag", 1)
	case "notag":
		frames = append(frames, mk(p9p.NOTAG, replyFor(victim.req, 424242).Message))
		w.Count("hostile:unknown-tag", 1)
	case "rversion":
		frames = append(frames, mk(p9p.NOTAG, p9p.MessageRversion{MSize: 4096, Version: "9P2000"}))
		w.Count("hostile:unknown-tag", 1)
	case "overlong-rread":
		// a well-formed Rread carrying more data than the Tread asked for
		var rd *c12call
		for _, c := range cs {
			if _, ok := c.req.Message.(p9p.MessageTread); ok {
				rd = c
			}
		}
		if rd == nil {
			class = "unknown-tag"
			frames = append(frames, mk(victim.req.Tag+2000, replyFor(victim.req, 424242).Message))
			w.Count("hostile:unknown-tag", 1)
			break
		}
		victim = rd
		data := append([]byte(fmt.Sprintf("uid-%d", rd.uid)), make([]byte, 300)...)
		frames = append(frames, mk(rd.req.Tag, p9p.MessageRread{Data: data}))
		answered[rd.uid] = true
		w.Count("hostile:overlong-rread", 1)
	case "repeated-tag":
		fr := refcodec.MustFrame(replyFor(victim.req, victim.uid))
		frames = append(frames, fr, fr)
		if r.Intn(2) == 0 {
			frames = append(frames, fr)
		}
		answered[victim.uid] = true
		w.Count("hostile:repeated-tag", 1)
	case "wrong-type", "t-message":
		var m p9p.Message
		for {
			k := gen.Kinds[r.Intn(len(gen.Kinds))]
			if class == "t-message" && k.String()[0] != 'T' {
				continue
			}
			m = g.Msg(k)
			if m.Type() != replyFor(victim.req, 1).Type && m.Type() != p9p.Rerror {
				break
			}
		}
		frames = append(frames, mk(victim.req.Tag, m))
		// ... possibly several times on the same tag (the first one ends the call; the others are strays)
		for k := r.Intn(4); k > 0; k-- {
			frames = append(frames, mk(victim.req.Tag, m))
			w.Count("hostile:wrong-type-repeated", 1)
		}
		wrongTyped[victim.uid] = true
		w.Count("hostile:wrong-type", 1)
	case "abnormal-frame":
		f := genFrameC03(w, g, 65536, false)
		for f.expect == "msg" {
			f = genFrameC03(w, g, 65536, false)
		}
		fb := append([]byte{}, f.bytes...)
		if len(fb) >= 7 {
			fb[5], fb[6] = 0x77, 0x77 // never the tag of a pending call: a frame that happens to decode must not pass for a reply
		}
		frames = append(frames, fb)
		killsStream = true
		w.Count("hostile:abnormal-frame", 1)
	default:
		b := make([]byte, 1+r.Intn(64))
		r.Read(b)
		frames = append(frames, b)
		killsStream = true
		w.Count("hostile:garbage", 1)
	}
	var hex []string
	for _, f := range frames {
		hex = append(hex, hexHead(f))
	}
	w.Case("C12 %s frames=%v", desc, hex)
	for _, f := range frames {
		e.h.replyRaw(f)
	}
	if !settle() {
		w.Inconclusive("watchdog")
		return
	}
	if follow {
		for _, c := range cs {
			if !answered[c.uid] && !wrongTyped[c.uid] {
				e.h.reply(replyFor(c.req, c.uid))
			}
		}
		if !settle() {
			w.Inconclusive("watchdog")
			return
		}
	}
	e.h.srv.Close()
	if !settle() {
		w.Inconclusive("watchdog")
		return
	}
	if !e.allReturned("hostile " + class) {
		return
	}
	e.mu.Lock()
	defer e.mu.Unlock()
	for _, c := range cs {
		switch {
		case wrongTyped[c.uid]:
			if c.res.err == nil {
				e.bad("mismatch", "wrong-typed-reply-accepted", "call uid=%d (%v) was answered with a message of the wrong type %s and returned success (uid %d)", c.uid, c.req.Type, hexHead(frames[0]), c.res.uid)
				return
			}
		case c.res.uid == -3:
			e.bad("mismatch", "read-count-exceeds-buffer", "call uid=%d: %s (the peer sent more data than was asked for)", c.uid, c.res.desc)
			return
		case c.res.err == nil && c.res.uid != c.uid:
			e.bad("mismatch", "crossed-reply", "call uid=%d returned the result uid=%d", c.uid, c.res.uid)
			return
		case c.res.err != nil && !killsStream && (answered[c.uid] || follow):
			e.bad("mismatch", "intact-reply-lost", "call uid=%d was answered correctly (the hostile frame was well-formed) but returned err=%v", c.uid, c.res.err)
			return
		}
	}
	w.NT(fmt.Sprintf("hostile/%s/%v/%d/%v", class, victim.req.Type, P, follow))
	if w.SampleDue(173) {
		w.Sample(map[string]interface{}{"class": class, "pending_calls": P, "victim_request": victim.req.Type.String(), "hostile_frames": hex, "correct_replies_afterwards": follow})
	}
}

// c12OverlongDirRead lists a directory through the client file-system layer while the
// peer answers every Tread with more bytes than were asked for: the client must survive
// (a crash is observed through the case log) and must not hand out more than it asked.
func c12OverlongDirRead(w *mon.W, no int) {
	hostileData := no%2 == 1
	desc := fmt.Sprintf("hostile #%d: directory listing through CFileSys, peer answers Tread with an over-long Rread", no)
	if hostileData {
		desc = fmt.Sprintf("hostile #%d: directory listing through CFileSys, peer answers Tread with malformed directory data", no)
	}
	w.Case("C12 %s", desc)
	e := newC12(w, desc)
	if e == nil {
		return
	}
	defer e.h.close()
	if hostileData {
		w.Count("hostile:dir-data", 1)
	} else {
		w.Count("hostile:overlong-rread", 1)
	}
	entry, _ := refcodec.EncodeStat(p9p.Dir{Name: "entry", UID: "u", GID: "g", MUID: "m"})
	// malformed directory data: one good entry, then an entry whose size or inner length
	// fields claim anything at all, or that is cut short, or garbage
	mkHostile := func() []byte {
		r := w.Rng
		bad := append([]byte{}, entry...)
		switch r.Intn(5) {
		case 0:
			v := []uint16{0, 1, 2, 46, 47, 0x7FFF, 0x8000, 0xFF00, 0xFFFD, 0xFFFE, 0xFFFF, uint16(r.Intn(65536))}[r.Intn(12)]
			bad[0], bad[1] = byte(v), byte(v>>8)
		case 1:
			bad = bad[:1+r.Intn(len(bad)-1)]
		case 2:
			// name length field (offset 41) claims more than there is
			v := []uint16{0xFFFF, 0xFFFE, 0x8000, uint16(len(bad))}[r.Intn(4)]
			bad[41], bad[42] = byte(v), byte(v>>8)
		case 3:
			bad = make([]byte, 1+r.Intn(80))
			r.Read(bad)
		default:
			bad = []byte{0xFF, 0xFF}
		}
		if r.Intn(2) == 0 {
			return bad
		}
		return append(append([]byte{}, entry...), bad...)
	}
	reads := 0
	e.h.mu.Lock()
	e.h.onReq = func(fc *p9p.Fcall) {
		switch m := fc.Message.(type) {
		case p9p.MessageTattach:
			e.h.reply(&p9p.Fcall{Type: p9p.Rattach, Tag: fc.Tag, Message: p9p.MessageRattach{Qid: p9p.Qid{Type: p9p.QTDIR, Path: 1}}})
		case p9p.MessageTopen:
			e.h.reply(&p9p.Fcall{Type: p9p.Ropen, Tag: fc.Tag, Message: p9p.MessageRopen{Qid: p9p.Qid{Type: p9p.QTDIR, Path: 1}, IOUnit: 128}})
		case p9p.MessageTread:
			reads++
			if reads > 3 {
				e.h.reply(&p9p.Fcall{Type: p9p.Rread, Tag: fc.Tag, Message: p9p.MessageRread{}})
				return
			}
			var data []byte
			if hostileData {
				data = mkHostile()
				if len(data) > int(m.Count) {
					data = data[:m.Count]
				}
			} else {
				for len(data) <= int(m.Count)+200 {
					data = append(data, entry...)
				}
			}
			e.h.reply(&p9p.Fcall{Type: p9p.Rread, Tag: fc.Tag, Message: p9p.MessageRread{Data: data}})
		default:
			e.h.reply(replyFor(fc, 1))
		}
	}
	e.h.mu.Unlock()
	fin := make(chan struct{})
	go func() {
		defer close(fin)
		ctx := context.Background()
		cfs := p9p.CFileSys(e.h.sess)
		root, err := cfs.Attach(ctx, "u", "", nil)
		if err != nil {
			return
		}
		next, err := root.OpenDir(ctx)
		if err != nil {
			return
		}
		for k := 0; k < 8; k++ {
			ds, err := next(ctx)
			if err != nil || len(ds) == 0 {
				return
			}
		}
	}()
	q := mon.AwaitQuiesce(fin)
	if q.Hung {
		e.bad("hang", "overlong-rread-listing-hangs", "listing does not return; blocked at %s", q.Sites)
		return
	}
	w.Eval()
	if hostileData {
		w.NT(fmt.Sprintf("hostile/cfs-dir-data/%d", no))
	} else {
		w.NT("hostile/cfs-overlong-rread")
	}
}
