package props

import (
	"fmt"
	"strings"
	"time"

	p9p "github.com/frobnitzem/go-p9p"

	"verifharness/mon"
	"verifharness/refcodec"
)

// C07: flush cancels the request, silences its reply and frees the tag safely.
func init() {
	register(&mon.Spec{
		ID:    "C07",
		Level: "exploration",
		Rule: "twelve gate scripts against p9p.ServeConn with a scripted Handler, each repeated R times with PRNG-chosen tags, message kinds, extra background requests (0-3, in one case of eight 64-133) and sub-orderings (the server's own select between 'completed' and 'context done' is random, hence the repetitions): " +
			"(1) flush while the handler runs, handler honours cancellation; (2) handler ignores cancellation and completes after the Rflush; (3) as 2 but the tag is reused by request B before A completes, A then B; (4) as 3 with A and B completing together; " +
			"(5) completion and Tflush issued back-to-back in both orders; (6) flush of a tag that was never used; (7) flush naming its own tag; (8) double flush; (9) flush, then immediate reuse of the tag (must be dispatched, not refused as duplicate); (10) the client stops reading so that the server's writer and serve loop stall, then a request and the Tflush naming it arrive in one write; (11) a request is dispatched, the client stops reading so that one bulky reply occupies the server's writer, the Tflush arrives (its acknowledgement cannot be written yet), then the client either hangs up (serving must return and the flushed handler must have been cancelled) or drains (acknowledgement arrives, handler cancelled, flushed request silent). (12) as 3, but K in {1, 254, 255, 256, 65534, 65535, 65536} other requests are served between the flush and the reuse of the tag. The request that gets flushed is of a PRNG-chosen kind (Tstat, Tclunk, Tremove, Topen, Tread, Twrite, Twalk, Tcreate, Twstat, Tattach, Tauth). " +
			"Oracle over the wire log (reference-codec parsed) and handler observations: flushed handler's ctx is Done once the flush is answered; every Tflush gets exactly one reply; no reply to the flushed request after the flush reply (at most one before it, in script 5); a reply on a reused tag carries the new request's uid, never the flushed one's; every non-flushed request is answered exactly once. " +
			"non-trivial = the flushed handler returned after the cancellation (late completion); distinct by (script, variant, background pattern)",
		Assumptions: []string{
			"whether a late completion reaches the serve loop or is dropped in its goroutine is a random choice inside the server that the harness cannot observe; coverage of both branches comes from repetition",
			"quiescence from goroutine states, no clocks",
		},
		Race:      true,
		RaceFiles: []string{"serveconn.go"},
		Shards:    shards(8, 16),
		Timeout:   timeouts(12*time.Minute, 90*time.Minute),
		MinEvals:  100,
		Required:  []string{"script:1", "script:2", "script:3", "script:4", "script:5", "script:6", "script:7", "script:8", "script:9", "script:10", "script:11", "script:12", "busy_writer_then_close", "busy_writer_then_drain", "flush_with_64_or_more_outstanding", "late_completions", "flush_replies_checked", "ctx_done_observed", "reused_tag_replies_checked"},
		Run:       runC07,
	})
}

type c07 struct {
	w     *mon.W
	h     *srvH
	sh    *scriptHandler
	trace []string
	seen  int
	uid   int
	no    int
	fail  bool
}

func (c *c07) bad(sig, format string, a ...interface{}) {
	c.fail = true
	c.w.Violate("mismatch", "C07:"+sig, fmt.Sprintf(format, a...)+fmt.Sprintf("; case #%d trace=[%s]", c.no, strings.Join(c.trace, "; ")), map[string]interface{}{"trace": c.trace})
}

// statReq is a Tstat carrying uid; its handler result is an Rstat whose name carries uid.
func (c *c07) send(tag p9p.Tag, m p9p.Message) {
	c.trace = append(c.trace, fmt.Sprintf("send %s tag=%d %v", m.Type(), tag, m))
	c.h.send(&p9p.Fcall{Type: m.Type(), Tag: tag, Message: m})
}

// request sends a request of a PRNG-chosen kind whose fid field carries a fresh uid
// (ServeConn hands every kind to the Handler alike; the handler answers with an Rstat naming the uid).
func (c *c07) request(tag p9p.Tag) (uid int) {
	c.uid++
	f := p9p.Fid(c.uid)
	var m p9p.Message
	switch c.w.Rng.Intn(12) {
	case 0:
		m = p9p.MessageTclunk{Fid: f}
	case 1:
		m = p9p.MessageTremove{Fid: f}
	case 2:
		m = p9p.MessageTopen{Fid: f, Mode: p9p.OREAD}
	case 3:
		m = p9p.MessageTread{Fid: f, Offset: 0, Count: 16}
	case 4:
		m = p9p.MessageTwrite{Fid: f, Offset: 0, Data: []byte("w")}
	case 5:
		m = p9p.MessageTwalk{Fid: f, Newfid: f + 5000, Wnames: []string{"a"}}
	case 6:
		m = p9p.MessageTcreate{Fid: f, Name: "n", Perm: 0644, Mode: p9p.OREAD}
	case 7:
		m = p9p.MessageTwstat{Fid: f, Stat: p9p.Dir{Name: "n"}}
	case 8:
		m = p9p.MessageTattach{Fid: f, Afid: p9p.NOFID, Uname: "u", Aname: ""}
	case 9:
		m = p9p.MessageTauth{Afid: f, Uname: "u", Aname: ""}
	default:
		m = p9p.MessageTstat{Fid: f}
	}
	c.w.Count("flushable_kind:"+m.Type().String(), 1)
	c.send(tag, m)
	return c.uid
}

func c07uid(m p9p.Message) int {
	switch v := m.(type) {
	case p9p.MessageTclunk:
		return int(v.Fid)
	case p9p.MessageTremove:
		return int(v.Fid)
	case p9p.MessageTopen:
		return int(v.Fid)
	case p9p.MessageTread:
		return int(v.Fid)
	case p9p.MessageTwrite:
		return int(v.Fid)
	case p9p.MessageTwalk:
		return int(v.Fid)
	case p9p.MessageTcreate:
		return int(v.Fid)
	case p9p.MessageTwstat:
		return int(v.Fid)
	case p9p.MessageTattach:
		return int(v.Fid)
	case p9p.MessageTauth:
		return int(v.Afid)
	case p9p.MessageTstat:
		return int(v.Fid)
	}
	return -1
}

func (c *c07) settle() bool {
	if !settle() {
		c.w.Inconclusive("watchdog")
		c.fail = true
		return false
	}
	return true
}

// started returns the invocation for uid (must have been dispatched).
func (c *c07) inv(uid int) *invocation {
	for _, in := range c.sh.snapshot() {
		if c07uid(in.msg) == uid {
			return in
		}
	}
	return nil
}

func resultFor(uid int) hResult {
	return hResult{msg: p9p.MessageRstat{Stat: p9p.Dir{Name: fmt.Sprintf("uid-%d", uid)}}}
}

func uidOfReply(r *p9p.Fcall) int {
	if rs, ok := r.Message.(p9p.MessageRstat); ok {
		var u int
		fmt.Sscanf(rs.Stat.Name, "uid-%d", &u)
		return u
	}
	return -1
}

func (c *c07) complete(uid int) {
	in := c.inv(uid)
	if in == nil {
		c.bad("not-dispatched", "request uid=%d was never dispatched", uid)
		return
	}
	c.trace = append(c.trace, fmt.Sprintf("complete uid=%d", uid))
	in.gate <- resultFor(uid)
}

func runC07(w *mon.W) {
	R := w.Scale(90, 3000)
	caseNo := 0
	for script := 1; script <= 11; script++ {
		for rep := 0; rep < R; rep++ {
			caseNo++
			if !w.Mine(caseNo) {
				continue
			}
			runC07Case(w, script, caseNo)
		}
	}
	// script 12: a late completion that arrives after K other requests have been served and
	// the tag has been reused; K around the widths of small counters
	ks := []int{1, 254, 255, 256, 65534, 65535, 65536}
	// (whether a late completion reaches the serve loop at all is a coin flip inside the server: repeated)
	for rep := 0; rep < w.Scale(5, 16); rep++ {
		for _, k := range ks {
			caseNo++
			if w.Mine(caseNo) {
				runC07Distance(w, k, caseNo)
			}
		}
	}
}

func runC07Case(w *mon.W, script, no int) {
	honour := script == 1 || script == 11
	sh := &scriptHandler{honour: func(p9p.Message) bool { return honour }}
	w.Case("C07 script %d case #%d", script, no)
	bufCap := 1 << 20
	if script == 10 || script == 11 {
		bufCap = 96 // a connection that buffers little: the server's writer can be stalled
	}
	h, err := newSrvH(sh, 8192, bufCap)
	if err != nil {
		w.Inconclusive("handshake: %v", err)
		h.close()
		return
	}
	defer h.close()
	w.Eval()
	w.Count(fmt.Sprintf("script:%d", script), 1)
	if script == 10 {
		runC07Stalled(w, h, sh, no)
		return
	}
	if script == 11 {
		runC07BusyWriter(w, h, sh, no)
		return
	}
	c := &c07{w: w, h: h, sh: sh, no: no}
	r := w.Rng
	tagPool := []p9p.Tag{0, 1, 7, 0x00FF, 0x0100, 0xFFFE, p9p.NOTAG, p9p.Tag(r.Intn(65536))}
	t := tagPool[r.Intn(len(tagPool))]
	f := t + 1 + p9p.Tag(r.Intn(50))
	// background requests that stay outstanding throughout and must be answered exactly once at the end
	var background []int
	bgTags := map[int]p9p.Tag{}
	nbg := r.Intn(4)
	if r.Intn(8) == 0 {
		nbg = 64 + r.Intn(70) // many requests outstanding when the flush arrives
		w.Count("flush_with_64_or_more_outstanding", 1)
	}
	for i := 0; i < nbg; i++ {
		bt := t + 100 + p9p.Tag(i)
		u := c.request(bt)
		background = append(background, u)
		bgTags[u] = bt
	}
	variant := r.Intn(2)
	key := fmt.Sprintf("s%d/v%d/bg%d/t%d", script, variant, nbg, t)

	// expectReplies: after a settle, the replies that arrived must be exactly these
	// (tag -> uid, uid 0 = a flush reply of either kind).
	type exp struct {
		tag   p9p.Tag
		uid   int
		flush bool
	}
	check := func(what string, want ...exp) bool {
		rs := h.take()
		used := make([]bool, len(rs))
		for _, e := range want {
			found := false
			for i, rp := range rs {
				if used[i] || rp.Tag != e.tag {
					continue
				}
				if e.flush {
					if rp.Type != p9p.Rflush && rp.Type != p9p.Rerror {
						continue
					}
					w.Count("flush_replies_checked", 1)
				} else {
					if u := uidOfReply(rp); u != e.uid {
						c.bad("wrong-reply-on-tag", "%s: reply on tag %d carries uid %d, want uid %d (%s)", what, e.tag, u, e.uid, refcodec.Describe(rp))
						return false
					}
				}
				used[i], found = true, true
				break
			}
			if !found {
				c.bad("missing-reply:"+map[bool]string{true: "flush", false: "request"}[e.flush], "%s: no reply on tag %d (flush=%v uid=%d); replies were %s", what, e.tag, e.flush, e.uid, describeReplies(rs))
				return false
			}
		}
		for i, rp := range rs {
			if !used[i] {
				c.bad("unexpected-reply", "%s: unexpected reply %s", what, refcodec.Describe(rp))
				return false
			}
		}
		return true
	}
	ctxDone := func(uid int, what string) bool {
		in := c.inv(uid)
		if in == nil {
			c.bad("not-dispatched", "request uid=%d was never dispatched", uid)
			return false
		}
		if in.ctx.Err() == nil {
			c.bad("ctx-not-cancelled", "%s: the flushed request's handler context is not cancelled", what)
			return false
		}
		w.Count("ctx_done_observed", 1)
		return true
	}

	switch script {
	case 1, 2, 3, 4, 8, 9:
		a := c.request(t)
		if !c.settle() || !check("after sending A") {
			return
		}
		if c.inv(a) == nil {
			c.bad("not-dispatched", "A was not dispatched")
			return
		}
		c.send(f, p9p.MessageTflush{Oldtag: t})
		if script == 8 {
			c.send(f+1, p9p.MessageTflush{Oldtag: t})
		}
		if !c.settle() {
			return
		}
		want := []exp{{tag: f, flush: true}}
		if script == 8 {
			want = append(want, exp{tag: f + 1, flush: true})
		}
		if !check("after the flush", want...) || !ctxDone(a, "after the flush was answered") {
			return
		}
		if script == 1 {
			in := c.inv(a)
			if !in.returned || !in.sawDone {
				c.bad("handler-not-woken", "the cancellation-honouring handler of A did not see ctx.Done()")
				return
			}
		}
		switch script {
		case 1:
			// reuse the tag
			b := c.request(t)
			if !c.settle() || !check("after reusing the tag") {
				return
			}
			c.complete(b)
			if !c.settle() || !check("after completing B", exp{tag: t, uid: b}) {
				return
			}
			w.Count("reused_tag_replies_checked", 1)
		case 2, 8:
			c.complete(a) // late completion: must stay silent
			w.Count("late_completions", 1)
			if !c.settle() || !check("after A's late completion") {
				return
			}
			b := c.request(t)
			if !c.settle() || !check("after reusing the tag") {
				return
			}
			c.complete(b)
			if !c.settle() || !check("after completing B", exp{tag: t, uid: b}) {
				return
			}
			w.Count("reused_tag_replies_checked", 1)
			w.NT(key)
		case 3, 4, 9:
			b := c.request(t) // reuse while A's handler is still running
			if !c.settle() {
				return
			}
			if script == 9 {
				// must have been dispatched, not refused as a duplicate
				if !check("after reusing the freed tag") {
					return
				}
				if c.inv(b) == nil {
					c.bad("reuse-not-dispatched", "a request reusing the flushed tag was not dispatched")
					return
				}
			} else if !check("after reusing the tag") {
				return
			}
			w.Count("late_completions", 1)
			if script == 4 {
				if variant == 0 {
					c.complete(a)
					c.complete(b)
				} else {
					c.complete(b)
					c.complete(a)
				}
				if !c.settle() || !check("after A and B completed together", exp{tag: t, uid: b}) {
					return
				}
			} else {
				c.complete(a)
				if !c.settle() || !check("after A's late completion (tag reused by B)") {
					return
				}
				c.complete(b)
				if !c.settle() || !check("after completing B", exp{tag: t, uid: b}) {
					return
				}
			}
			w.Count("reused_tag_replies_checked", 1)
			w.NT(key)
		}
	case 5:
		a := c.request(t)
		if !c.settle() || !check("after sending A") {
			return
		}
		if variant == 0 {
			c.complete(a)
			c.send(f, p9p.MessageTflush{Oldtag: t})
		} else {
			c.send(f, p9p.MessageTflush{Oldtag: t})
			c.complete(a)
		}
		w.Count("late_completions", 1)
		if !c.settle() {
			return
		}
		rs := h.take()
		// exactly one reply for the flush; at most one for A and only before the flush reply
		fl, ar := -1, -1
		for i, rp := range rs {
			switch {
			case rp.Tag == f && (rp.Type == p9p.Rflush || rp.Type == p9p.Rerror) && fl < 0:
				fl = i
			case rp.Tag == t && uidOfReply(rp) == a && ar < 0:
				ar = i
			default:
				c.bad("unexpected-reply", "completion racing flush: unexpected reply %s in %s", refcodec.Describe(rp), describeReplies(rs))
				return
			}
		}
		if fl < 0 {
			c.bad("missing-reply:flush", "completion racing flush: the Tflush was not answered; replies %s", describeReplies(rs))
			return
		}
		w.Count("flush_replies_checked", 1)
		if ar > fl {
			c.bad("reply-after-rflush", "the flushed request's reply was sent after the flush was acknowledged: %s", describeReplies(rs))
			return
		}
		if ar >= 0 {
			w.Count("s5_reply_before_flush", 1)
		} else {
			w.Count("s5_reply_suppressed", 1)
		}
		w.NT(key)
		// the tag is free either way
		b := c.request(t)
		if !c.settle() || !check("after reusing the tag") {
			return
		}
		c.complete(b)
		if !c.settle() || !check("after completing B", exp{tag: t, uid: b}) {
			return
		}
		w.Count("reused_tag_replies_checked", 1)
	case 6:
		c.send(f, p9p.MessageTflush{Oldtag: t})
		if !c.settle() || !check("flush of a never-used tag", exp{tag: f, flush: true}) {
			return
		}
		w.NT(key)
	case 7:
		c.send(f, p9p.MessageTflush{Oldtag: f})
		if !c.settle() || !check("flush naming its own tag", exp{tag: f, flush: true}) {
			return
		}
		w.NT(key)
	}
	// background requests: still outstanding, answered exactly once now
	var want []exp
	for _, u := range background {
		c.complete(u)
		want = append(want, exp{tag: bgTags[u], uid: u})
	}
	if !c.settle() || !check("after completing the background requests", want...) {
		return
	}
	if w.SampleDue(23) {
		w.Sample(map[string]interface{}{"script": script, "variant": variant, "tag": t, "flush_tag": f, "background_requests": nbg, "trace": c.trace})
	}
}

// runC07Stalled (script 10): the client stops reading, so the server's writer and then its
// serve loop stall behind unread replies; a request and the Tflush naming it then arrive
// back to back. When the client reads again the flush must still find its request
// outstanding: handler cancelled, flush acknowledged, nothing for the request afterwards.
func runC07Stalled(w *mon.W, h *srvH, sh *scriptHandler, no int) {
	c := &c07{w: w, h: h, sh: sh, no: no}
	// requests on fids >= 1000 are answered at once with a bulky result
	sh.instant = func(msg p9p.Message) (p9p.Message, error, bool) {
		if ts, ok := msg.(p9p.MessageTstat); ok && ts.Fid >= 1000 {
			return p9p.MessageRstat{Stat: p9p.Dir{Name: fmt.Sprintf("bulk-%d-%s", ts.Fid, strings.Repeat("x", 40))}}, nil, true
		}
		return nil, nil, false
	}
	h.pauseReads()
	for i := 0; i < 4; i++ {
		c.send(p9p.Tag(200+i), p9p.MessageTstat{Fid: p9p.Fid(1000 + i)})
		if !c.settle() {
			h.resumeReads()
			return
		}
	}
	// the server is now stuck: writer in Write, serve loop handing over the next reply
	a := 1
	fa := refcodec.MustFrame(&p9p.Fcall{Type: p9p.Tstat, Tag: 7, Message: p9p.MessageTstat{Fid: p9p.Fid(a)}})
	ff := refcodec.MustFrame(&p9p.Fcall{Type: p9p.Tflush, Tag: 8, Message: p9p.MessageTflush{Oldtag: 7}})
	c.trace = append(c.trace, "send Tstat tag=7 uid=1 and Tflush tag=8 oldtag=7 in one write while the server is stalled")
	h.sendRaw(append(fa, ff...))
	if !c.settle() {
		h.resumeReads()
		return
	}
	h.resumeReads()
	if !c.settle() {
		return
	}
	rs := h.take()
	var flushReply *p9p.Fcall
	aReplies := 0
	for _, r := range rs {
		switch {
		case r.Tag == 8:
			flushReply = r
		case r.Tag == 7:
			aReplies++
		}
	}
	w.Count("flush_replies_checked", 1)
	if flushReply == nil {
		c.bad("missing-reply:flush", "stalled server: the Tflush sent right behind its request was never answered; replies %s", describeReplies(rs))
		return
	}
	in := c.inv(a)
	if in == nil {
		// the request may have been flushed before it was ever dispatched: fine, as long as it stays silent
		if aReplies > 0 {
			c.bad("reply-after-rflush", "stalled server: the flushed request was answered: %s", describeReplies(rs))
		}
		w.NT("s10/not-dispatched")
		return
	}
	if in.ctx.Err() == nil {
		c.bad("ctx-not-cancelled", "stalled server: a Tflush arriving right behind its request did not cancel the request's handler (flush reply: %s)", refcodec.Describe(flushReply))
		return
	}
	w.Count("ctx_done_observed", 1)
	// late completion: nothing may be sent for the flushed request
	w.Count("late_completions", 1)
	c.complete(a)
	if !c.settle() {
		return
	}
	for _, r := range h.take() {
		if r.Tag == 7 {
			c.bad("reply-after-rflush", "stalled server: a reply to the flushed request was sent after the flush was acknowledged: %s", refcodec.Describe(r))
			return
		}
	}
	w.NT("s10/dispatched")
}

// runC07BusyWriter: script 11.
func runC07BusyWriter(w *mon.W, h *srvH, sh *scriptHandler, no int) {
	c := &c07{w: w, h: h, sh: sh, no: no}
	sh.instant = func(msg p9p.Message) (p9p.Message, error, bool) {
		if ts, ok := msg.(p9p.MessageTstat); ok && ts.Fid >= 1000 {
			return p9p.MessageRstat{Stat: p9p.Dir{Name: fmt.Sprintf("bulk-%d-%s", ts.Fid, strings.Repeat("x", 1500))}}, nil, true
		}
		return nil, nil, false
	}
	a := c.request(7)
	if !c.settle() {
		return
	}
	in := c.inv(a)
	if in == nil {
		c.bad("not-dispatched", "request uid=%d was never dispatched", a)
		return
	}
	h.pauseReads()
	c.send(200, p9p.MessageTstat{Fid: 1000}) // its reply does not fit the connection's buffer: the writer stays in Write
	if !c.settle() {
		h.resumeReads()
		return
	}
	c.send(8, p9p.MessageTflush{Oldtag: 7})
	if !c.settle() {
		h.resumeReads()
		return
	}
	cancelledWhilePending := in.ctx.Err() != nil
	if cancelledWhilePending {
		w.Count("cancelled_while_ack_pending", 1)
	} else {
		w.Count("not_cancelled_while_ack_pending", 1)
	}
	if w.Rng.Intn(2) == 0 {
		// the client hangs up without ever reading the acknowledgement
		c.trace = append(c.trace, "client closes")
		w.Count("busy_writer_then_close", 1)
		// only the connection goes away; the serving context stays alive
		h.cli.Close()
		q := mon.AwaitQuiesce(h.serveDone)
		ret := q.Done
		h.resumeReads()
		if !ret {
			if q.Hung {
				c.bad("serve-hang-after-flush", "the client flushed a request while the server's writer was busy and then hung up: ServeConn never returns (flushed handler cancelled: %v); blocked at %s", in.ctx.Err() != nil, q.Sites)
			} else {
				w.Inconclusive("watchdog waiting for ServeConn")
			}
			return
		}
		if in.ctx.Err() == nil {
			c.bad("ctx-not-cancelled", "the flushed request's handler context was never cancelled although the flush was processed and the connection then closed")
			return
		}
		w.Count("ctx_done_observed", 1)
		w.NT(fmt.Sprintf("s11/close/%v", cancelledWhilePending))
		return
	}
	w.Count("busy_writer_then_drain", 1)
	h.resumeReads()
	if !c.settle() {
		return
	}
	rs := h.take()
	var flushReply *p9p.Fcall
	for _, r := range rs {
		if r.Tag == 8 {
			flushReply = r
		}
		if r.Tag == 7 {
			c.bad("reply-after-rflush", "busy writer: the flushed request was answered: %s", describeReplies(rs))
			return
		}
	}
	w.Count("flush_replies_checked", 1)
	if flushReply == nil || flushReply.Type != p9p.Rflush {
		c.bad("missing-reply:flush", "busy writer: the Tflush was not acknowledged with Rflush; replies %s", describeReplies(rs))
		return
	}
	if in.ctx.Err() == nil {
		c.bad("ctx-not-cancelled", "busy writer: the flush was acknowledged but the handler's context is not cancelled")
		return
	}
	w.Count("ctx_done_observed", 1)
	w.NT(fmt.Sprintf("s11/drain/%v", cancelledWhilePending))
}

// runC07Distance: script 12.
func runC07Distance(w *mon.W, K, no int) {
	sh := &scriptHandler{honour: func(p9p.Message) bool { return false }}
	w.Case("C07 script 12 (K=%d) case #%d", K, no)
	h, err := newSrvH(sh, 8192, 1<<20)
	if err != nil {
		w.Inconclusive("handshake: %v", err)
		h.close()
		return
	}
	defer h.close()
	w.Eval()
	w.Count("script:12", 1)
	c := &c07{w: w, h: h, sh: sh, no: no}
	sh.instant = func(msg p9p.Message) (p9p.Message, error, bool) {
		if ts, ok := msg.(p9p.MessageTstat); ok && ts.Fid >= 1000 {
			return p9p.MessageRstat{Stat: p9p.Dir{Name: "filler"}}, nil, true
		}
		return nil, nil, false
	}
	a := c.request(7)
	if !c.settle() {
		return
	}
	c.send(8, p9p.MessageTflush{Oldtag: 7})
	if !c.settle() {
		return
	}
	rs := h.take()
	if len(rs) != 1 || rs[0].Tag != 8 || rs[0].Type != p9p.Rflush {
		c.bad("missing-reply:flush", "script 12: the Tflush was answered with %s", describeReplies(rs))
		return
	}
	w.Count("flush_replies_checked", 1)
	// K fillers, in bursts of up to 1000 pipelined requests with distinct tags
	c.trace = append(c.trace, fmt.Sprintf("%d filler requests served", K))
	sent := 0
	for sent < K {
		n := K - sent
		if n > 1000 {
			n = 1000
		}
		var burst []byte
		for i := 0; i < n; i++ {
			burst = append(burst, refcodec.MustFrame(&p9p.Fcall{Type: p9p.Tstat, Tag: p9p.Tag(1000 + i), Message: p9p.MessageTstat{Fid: p9p.Fid(1000 + i)}})...)
		}
		h.sendRaw(burst)
		if !c.settle() {
			return
		}
		if got := len(h.take()); got != n {
			c.bad("missing-reply:request", "script 12: %d filler requests sent, %d replies", n, got)
			return
		}
		sent += n
	}
	b := c.request(7) // the tag is reused
	if !c.settle() {
		return
	}
	if c.inv(b) == nil {
		c.bad("not-dispatched", "script 12: the request reusing the flushed tag after %d other requests was not dispatched; replies %s", K, describeReplies(h.take()))
		return
	}
	w.Count("late_completions", 1)
	c.complete(a)
	if !c.settle() {
		return
	}
	if rs := h.take(); len(rs) != 0 {
		c.bad("reply-after-rflush", "script 12 (K=%d): the flushed request's late completion produced %s while the tag belongs to a newer request", K, describeReplies(rs))
		return
	}
	c.complete(b)
	if !c.settle() {
		return
	}
	rs = h.take()
	w.Count("reused_tag_replies_checked", 1)
	if len(rs) != 1 || rs[0].Tag != 7 || uidOfReply(rs[0]) != b {
		c.bad("wrong-reply-on-tag", "script 12 (K=%d): the request reusing the tag was answered with %s, want its own result uid-%d", K, describeReplies(rs), b)
		return
	}
	w.NT(fmt.Sprintf("s12/%d", K))
}
