package props

import (
	"context"
	"errors"
	"fmt"
	"strings"
	"sync"
	"time"

	p9p "github.com/frobnitzem/go-p9p"

	"verifharness/gen"
	"verifharness/mon"
	"verifharness/refcodec"
)

// C06: server answers each request exactly once with its own tag and result.
func init() {
	register(&mon.Spec{
		ID:    "C06",
		Level: "exploration",
		Rule: "scripts against p9p.ServeConn with a scripted Handler over an in-memory connection (raw 9P client built on the reference codec): results are small or of exactly the largest size that fits msize (error text of msize-9..msize-12 bytes, Rread data of msize-11..msize-14); every second script runs on a connection that buffers 128 bytes, where a duplicate can arrive while a bulky reply occupies the server's writer (the client pauses reading); the message held by a parked handler is re-compared with what was sent when the handler is released; each script mixes, in PRNG order, new requests of every message kind (T-kinds, R-kinds and Tversion sent as requests; tags incl. 0, 1, 0xFFFE, NOTAG), bursts of pipelined requests (depth up to 64), " +
			"duplicates of outstanding tags at every position of the window, handler completions in PRNG order (singly and in groups released together), handlers that answer instantly, results of every R-kind and errors in three flavours (plain error, MessageRerror value, *MessageRerror), and immediate legal reuse of a tag after its reply was read. " +
			"After every stimulus the harness waits for quiescence (goroutine states) and compares what happened with a conservation monitor keyed by (tag, epoch): handler invoked exactly once per dispatched request with the message sent (Tread count clamped to msize-11), exactly one reply per request carrying its tag and exactly the handler's result / error text, " +
			"duplicates answered with 'duplicate tag' without dispatch and without disturbing the original, no stray replies. non-trivial = >= 2 handlers in flight with completion order != arrival order, or a duplicate-tag probe; distinct by schedule hash",
		Assumptions: []string{
			"replies fit in msize (the property's proviso); results are kept small",
			"quiescence is judged from goroutine states, not from clocks; ServeConn's 1 s negotiation timeout is the only timer and is retried/inconclusive if missed",
		},
		Race:      true,
		RaceFiles: []string{"serveconn.go", "channel.go", "ssesssion.go"},
		Shards:    shards(8, 16),
		Timeout:   timeouts(12*time.Minute, 90*time.Minute),
		MinEvals:  100,
		Required:  []string{"requests_dispatched", "replies_checked", "duplicate_probes", "inversions", "error_replies", "instant_completions", "tag_reuses", "serve_returned", "duplicate_bursts", "boundary_size_results", "held_messages_rechecked", "duplicate_while_writer_busy", "boundary_size_requests"},
		Run:       runC06,
	})
}

type c06req struct {
	uid    int
	tag    p9p.Tag
	sent   *p9p.Fcall
	expect p9p.Message // what the handler must see
	inv    *invocation
	result *hResult
	order  int // arrival order
}

// requestWithUID builds a request of the given kind whose fields carry uid.
func requestWithUID(g *gen.G, kind p9p.FcallType, uid int) p9p.Message {
	m := g.Msg(kind)
	u := uint32(uid)
	switch v := m.(type) {
	case p9p.MessageTversion:
		v.MSize = u
		return v
	case p9p.MessageRversion:
		v.MSize = u
		return v
	case p9p.MessageTauth:
		v.Afid = p9p.Fid(u)
		return v
	case p9p.MessageTattach:
		v.Fid = p9p.Fid(u)
		return v
	case p9p.MessageTwalk:
		v.Fid = p9p.Fid(u)
		return v
	case p9p.MessageTopen:
		v.Fid = p9p.Fid(u)
		return v
	case p9p.MessageTcreate:
		v.Fid = p9p.Fid(u)
		return v
	case p9p.MessageTread:
		v.Fid = p9p.Fid(u)
		return v
	case p9p.MessageTwrite:
		v.Fid = p9p.Fid(u)
		return v
	case p9p.MessageTclunk:
		v.Fid = p9p.Fid(u)
		return v
	case p9p.MessageTremove:
		v.Fid = p9p.Fid(u)
		return v
	case p9p.MessageTstat:
		v.Fid = p9p.Fid(u)
		return v
	case p9p.MessageTwstat:
		v.Fid = p9p.Fid(u)
		return v
	case p9p.MessageRerror:
		v.Ename = fmt.Sprintf("req-%d", uid)
		return v
	case p9p.MessageRwrite:
		v.Count = u
		return v
	case p9p.MessageRopen:
		v.IOUnit = u
		return v
	case p9p.MessageRcreate:
		v.IOUnit = u
		return v
	}
	return m
}

// resultWithUID builds a handler result carrying uid (message or error).
func resultWithUID(r rnd, g *gen.G, uid int) hResult {
	switch r.Intn(16) {
	case 13:
		// errors that happen to be the context package's: the request was not flushed, so they are results like any other
		return hResult{err: context.Canceled}
	case 14:
		return hResult{err: fmt.Errorf("upstream-%d: %w", uid, context.Canceled)}
	case 15:
		return hResult{err: fmt.Errorf("upstream-%d: %w", uid, context.DeadlineExceeded)}
	case 12:
		// an error that merely wraps a 9p error: its own text is what must reach the client
		return hResult{err: fmt.Errorf("wrapped-%d: %w", uid, p9p.ErrPerm)}
	case 0:
		return hResult{err: errors.New(fmt.Sprintf("plain-error-%d", uid))}
	case 1:
		return hResult{err: p9p.MessageRerror{Ename: fmt.Sprintf("rerror-value-%d", uid)}}
	case 2:
		return hResult{err: &p9p.MessageRerror{Ename: fmt.Sprintf("rerror-pointer-%d", uid)}}
	case 3:
		return hResult{msg: p9p.MessageRwrite{Count: uint32(uid)}}
	case 4:
		return hResult{msg: p9p.MessageRread{Data: []byte(fmt.Sprintf("data-%d", uid))}}
	case 5:
		return hResult{msg: p9p.MessageRopen{Qid: p9p.Qid{Path: uint64(uid)}, IOUnit: uint32(uid)}}
	case 6:
		return hResult{msg: p9p.MessageRattach{Qid: p9p.Qid{Path: uint64(uid)}}}
	case 7:
		return hResult{msg: p9p.MessageRwalk{Qids: []p9p.Qid{{Path: uint64(uid)}, {Path: 1}}}}
	case 8:
		d := g.SmallDir()
		d.Name = fmt.Sprintf("stat-%d", uid)
		return hResult{msg: p9p.MessageRstat{Stat: d}}
	case 9:
		return hResult{msg: p9p.MessageRcreate{Qid: p9p.Qid{Path: uint64(uid)}, IOUnit: 7}}
	case 10:
		return hResult{msg: p9p.MessageRerror{Ename: fmt.Sprintf("rerror-as-message-%d", uid)}}
	}
	return hResult{msg: p9p.MessageRauth{Qid: p9p.Qid{Path: uint64(uid), Version: 9}}}
}

func runC06(w *mon.W) {
	total := w.Scale(240, 12000)
	for i := 0; i < total; i++ {
		if !w.Mine(i) {
			continue
		}
		runC06Script(w, i)
	}
}

func runC06Script(w *mon.W, no int) {
	g := gen.Small(w.Rng)
	g.MaxStr, g.MaxData, g.MaxList = 40, 80, 4
	msize := []uint32{65536, 8192, 1024}[w.Rng.Intn(3)]
	sh := &scriptHandler{}
	instantUIDs := map[uint32]bool{}
	var imu sync.Mutex
	bulk := map[uint32]bool{}
	bulkData := func(uid int) []byte {
		return []byte(fmt.Sprintf("bulk-%d-", uid) + strings.Repeat("b", 700))
	}
	sh.instant = func(msg p9p.Message) (p9p.Message, error, bool) {
		imu.Lock()
		defer imu.Unlock()
		if tc, ok := msg.(p9p.MessageTclunk); ok && bulk[uint32(tc.Fid)] {
			return p9p.MessageRread{Data: bulkData(int(tc.Fid))}, nil, true
		}
		if tc, ok := msg.(p9p.MessageTclunk); ok && instantUIDs[uint32(tc.Fid)] {
			return p9p.MessageRwrite{Count: uint32(tc.Fid)}, nil, true
		}
		return nil, nil, false
	}
	var trace []string
	w.Case("C06 script #%d", no)
	bufCap := 1 << 20
	if no%2 == 1 {
		bufCap = 128 // a connection that buffers little: a bulky reply occupies the server's writer while the client does not read
	}
	h, err := newSrvH(sh, msize, bufCap)
	if err != nil {
		w.Inconclusive("handshake failed: %v", err)
		h.close()
		return
	}
	defer h.close()
	w.Eval()
	bad := func(sig, format string, a ...interface{}) {
		w.Violate("mismatch", "C06:"+sig, fmt.Sprintf(format, a...)+fmt.Sprintf("; script #%d msize=%d trace=[%s]", no, msize, strings.Join(trace, "; ")), map[string]interface{}{"trace": trace, "goroutines": mon.TrimDump(mon.Stacks(), 20000), "quietdump": mon.TrimDump(mon.LastQuietDump, 20000)})
	}

	outstanding := map[p9p.Tag]*c06req{} // dispatched, reply not yet read
	var parked []*c06req
	uid := 0
	arrivals := 0
	seenInv := 0
	nontrivial := false
	var completionOrder []int
	steps := 10 + w.Rng.Intn(50)
	usedTags := map[p9p.Tag]int{}

	freeTag := func() p9p.Tag {
		for {
			var t p9p.Tag
			switch w.Rng.Intn(8) {
			case 0:
				t = 0
			case 1:
				t = 1
			case 2:
				t = 0xFFFE
			case 3:
				t = p9p.NOTAG
			default:
				t = p9p.Tag(w.Rng.Intn(400))
			}
			if outstanding[t] == nil {
				return t
			}
		}
	}
	// results: usually small; sometimes of exactly the largest size that still fits msize
	result := func(uid int) hResult {
		if w.Rng.Intn(7) != 0 {
			return resultWithUID(w.Rng, g, uid)
		}
		d := w.Rng.Intn(4)
		w.Count("boundary_size_results", 1)
		nontrivial = true
		pad := func(prefix string, n int) string { return prefix + strings.Repeat("e", n-len(prefix)) }
		switch w.Rng.Intn(4) {
		case 0:
			return hResult{err: errors.New(pad(fmt.Sprintf("long-error-%d-", uid), int(msize)-9-d))}
		case 1:
			return hResult{err: p9p.MessageRerror{Ename: pad(fmt.Sprintf("long-rerror-%d-", uid), int(msize)-9-d)}}
		case 2:
			return hResult{msg: p9p.MessageRerror{Ename: pad(fmt.Sprintf("long-rerror-msg-%d-", uid), int(msize)-9-d)}}
		}
		return hResult{msg: p9p.MessageRread{Data: []byte(pad(fmt.Sprintf("long-data-%d-", uid), int(msize)-11-d))}}
	}
	kinds := []p9p.FcallType{}
	for _, k := range gen.Kinds {
		if k != p9p.Tflush {
			kinds = append(kinds, k)
		}
	}
	sendNew := func(instant bool) *c06req {
		uid++
		tag := freeTag()
		var m p9p.Message
		if instant {
			m = p9p.MessageTclunk{Fid: p9p.Fid(uid)}
			imu.Lock()
			instantUIDs[uint32(uid)] = true
			imu.Unlock()
		} else {
			// the handler does not see tags: requests in flight must differ in content so
			// that invocations can be attributed (bodiless kinds carry no uid)
			boundaryReq := false
			if w.Rng.Intn(8) == 0 {
				boundaryReq = true
				// a request whose frame is exactly msize, or 1-3 bytes short of it
				d := w.Rng.Intn(4)
				data := make([]byte, int(msize)-23-d)
				for k := range data {
					data[k] = byte(uid + k)
				}
				m = p9p.MessageTwrite{Fid: p9p.Fid(uid), Offset: uint64(uid), Data: data}
				w.Count("boundary_size_requests", 1)
			}
			for try := 0; !boundaryReq; try++ {
				kind := kinds[w.Rng.Intn(len(kinds))]
				if w.Rng.Intn(3) == 0 || try > 20 {
					kind = []p9p.FcallType{p9p.Tread, p9p.Twrite, p9p.Twalk, p9p.Tstat}[w.Rng.Intn(4)]
				}
				m = requestWithUID(g, kind, uid)
				clash := false
				for _, o := range outstanding {
					if refcodec.EqMsg(o.expect, clampTread(&p9p.Fcall{Message: m}, int(msize)).Message) {
						clash = true
					}
				}
				if !clash {
					break
				}
			}
		}
		fc := &p9p.Fcall{Type: m.Type(), Tag: tag, Message: m}
		rq := &c06req{uid: uid, tag: tag, sent: fc, order: arrivals}
		arrivals++
		rq.expect = clampTread(fc, int(msize)).Message
		if usedTags[tag] > 0 {
			w.Count("tag_reuses", 1)
		}
		usedTags[tag]++
		outstanding[tag] = rq
		trace = append(trace, fmt.Sprintf("send %s tag=%d uid=%d", fc.Type, tag, uid))
		if err := h.send(fc); err != nil {
			bad("send-failed", "send failed: %v", err)
		}
		return rq
	}
	// after a settle: match new invocations to the requests just sent, in order
	absorb := func(sent []*c06req) bool {
		invs := sh.snapshot()
		newInvs := invs[seenInv:]
		seenInv = len(invs)
		if len(newInvs) != len(sent) {
			var ss, is []string
			for _, rq := range sent {
				ss = append(ss, refcodec.Describe(rq.sent))
			}
			for _, inv := range newInvs {
				is = append(is, fmt.Sprintf("%v", inv.msg))
			}
			bad("dispatch-count", "%d request(s) sent, handler invoked %d time(s); served=%v serveErr=%v; sent %v; handler saw %v; replies %s", len(sent), len(newInvs), h.served(), h.serveErr, ss, is, describeReplies(h.take()))
			return false
		}
		// invocations may start in any order (one goroutine per request): match by content
		used := make([]bool, len(newInvs))
		for _, rq := range sent {
			found := false
			for j, inv := range newInvs {
				if !used[j] && refcodec.EqMsg(inv.msg, rq.expect) {
					used[j], found = true, true
					rq.inv = inv
					break
				}
			}
			if !found {
				var got []string
				for _, inv := range newInvs {
					got = append(got, fmt.Sprintf("%v", inv.msg))
				}
				bad("handler-message", "request uid=%d %s was not delivered to the handler as sent; handler saw %v", rq.uid, refcodec.Describe(rq.sent), got)
				return false
			}
			w.Count("requests_dispatched", 1)
			if rq.inv.returned {
				w.Count("instant_completions", 1)
			} else {
				parked = append(parked, rq)
			}
		}
		return true
	}
	// check the replies that arrived against the set of requests expected to be answered now
	checkReplies := func(expect []*c06req, extra []*p9p.Fcall) bool {
		rs := h.take()
		want := map[p9p.Tag]*c06req{}
		for _, rq := range expect {
			want[rq.tag] = rq
		}
		for _, e := range extra {
			// exact extra replies (duplicate-tag errors) expected alongside
			matched := false
			for k, r := range rs {
				if r != nil && refcodec.EqFcall(r, e) {
					rs[k] = nil
					matched = true
					break
				}
			}
			if !matched {
				bad("duplicate-tag-reply", "expected %s, replies were %s", refcodec.Describe(e), describeReplies(rs))
				return false
			}
		}
		for _, r := range rs {
			if r == nil {
				continue
			}
			rq := want[r.Tag]
			if rq == nil {
				bad("stray-reply", "unexpected reply %s (expected replies for tags %v)", refcodec.Describe(r), tagsOf(expect))
				return false
			}
			delete(want, r.Tag)
			w.Count("replies_checked", 1)
			if rq.result.err != nil {
				w.Count("error_replies", 1)
				re, ok := r.Message.(p9p.MessageRerror)
				if !ok || re.Ename != enameOf(rq.result.err) {
					bad("wrong-error-text", "request uid=%d tag=%d: handler returned error %q, reply is %s", rq.uid, rq.tag, enameOf(rq.result.err), refcodec.Describe(r))
					return false
				}
			} else if !refcodec.EqMsg(r.Message, rq.result.msg) || r.Type != rq.result.msg.Type() {
				bad("wrong-result", "request uid=%d tag=%d: handler returned %v, reply is %s", rq.uid, rq.tag, rq.result.msg, refcodec.Describe(r))
				return false
			}
			delete(outstanding, rq.tag)
			completionOrder = append(completionOrder, rq.order)
		}
		for _, rq := range want {
			bad("missing-reply", "request uid=%d tag=%d completed (handler returned) but no reply arrived", rq.uid, rq.tag)
			return false
		}
		return true
	}

	for s := 0; s < steps; s++ {
		switch op := w.Rng.Intn(10); {
		case op < 3: // one new request
			rq := sendNew(false)
			if !settle() {
				w.Inconclusive("watchdog")
				return
			}
			if !absorb([]*c06req{rq}) || !checkReplies(nil, nil) {
				return
			}
		case op == 3: // burst
			k := 2 + w.Rng.Intn(8)
			if w.Rng.Intn(6) == 0 {
				k = 20 + w.Rng.Intn(44)
			}
			var sent []*c06req
			for j := 0; j < k && len(outstanding) < 70; j++ {
				sent = append(sent, sendNew(false))
			}
			if !settle() {
				w.Inconclusive("watchdog")
				return
			}
			if !absorb(sent) || !checkReplies(nil, nil) {
				return
			}
			w.Max("max_in_flight", int64(len(parked)))
		case op == 4: // instant completion
			rq := sendNew(true)
			rq.result = &hResult{msg: p9p.MessageRwrite{Count: uint32(rq.uid)}}
			if !settle() {
				w.Inconclusive("watchdog")
				return
			}
			if !absorb([]*c06req{rq}) || !checkReplies([]*c06req{rq}, nil) {
				return
			}
		case op == 5 && len(parked) >= 2: // several duplicates of different outstanding tags back to back
			k := 2 + w.Rng.Intn(3)
			if k > len(parked) {
				k = len(parked)
			}
			perm := w.Rng.Perm(len(parked))[:k]
			var want []*p9p.Fcall
			var burst []byte
			for _, pi := range perm {
				orig := parked[pi]
				uid++
				m := requestWithUID(g, kinds[w.Rng.Intn(len(kinds))], uid)
				fc := &p9p.Fcall{Type: m.Type(), Tag: orig.tag, Message: m}
				trace = append(trace, fmt.Sprintf("send DUPLICATE(burst) %s tag=%d uid=%d", fc.Type, orig.tag, uid))
				burst = append(burst, refcodec.MustFrame(fc)...)
				want = append(want, &p9p.Fcall{Type: p9p.Rerror, Tag: orig.tag, Message: p9p.MessageRerror{Ename: enameOf(p9p.ErrDuptag)}})
			}
			h.sendRaw(burst) // one write: the server reads them without a pause in between
			if !settle() {
				w.Inconclusive("watchdog")
				return
			}
			w.Count("duplicate_probes", int64(k))
			w.Count("duplicate_bursts", 1)
			nontrivial = true
			if sh.count() != seenInv {
				bad("duplicate-dispatched", "a request reusing an outstanding tag was dispatched to the handler")
				return
			}
			if !checkReplies(nil, want) {
				return
			}
		case op == 6 && len(parked) > 0 && s%3 == 0: // duplicate of an outstanding tag arriving while the server's writer is busy
			orig := parked[w.Rng.Intn(len(parked))]
			// one bulky instant reply occupies the writer (the client does not read for the moment)
			h.pauseReads()
			uid++
			bulkUID := uid
			imu.Lock()
			instantUIDs[uint32(bulkUID)] = true
			bulk[uint32(bulkUID)] = true
			imu.Unlock()
			btag := freeTag()
			brq := &c06req{uid: bulkUID, tag: btag, order: arrivals}
			arrivals++
			brq.sent = &p9p.Fcall{Type: p9p.Tclunk, Tag: btag, Message: p9p.MessageTclunk{Fid: p9p.Fid(bulkUID)}}
			brq.expect = brq.sent.Message
			brq.result = &hResult{msg: p9p.MessageRread{Data: bulkData(bulkUID)}}
			outstanding[btag] = brq
			trace = append(trace, fmt.Sprintf("client stops reading; send Tclunk tag=%d uid=%d (bulky instant reply)", btag, bulkUID))
			h.send(brq.sent)
			if !settle() {
				h.resumeReads()
				w.Inconclusive("watchdog")
				return
			}
			uid++
			m := requestWithUID(g, kinds[w.Rng.Intn(len(kinds))], uid)
			fc := &p9p.Fcall{Type: m.Type(), Tag: orig.tag, Message: m}
			trace = append(trace, fmt.Sprintf("send DUPLICATE(writer busy) %s tag=%d uid=%d", fc.Type, orig.tag, uid))
			h.send(fc)
			if !settle() {
				h.resumeReads()
				w.Inconclusive("watchdog")
				return
			}
			h.resumeReads()
			trace = append(trace, "client reads again")
			if !settle() {
				w.Inconclusive("watchdog")
				return
			}
			w.Count("duplicate_probes", 1)
			w.Count("duplicate_while_writer_busy", 1)
			nontrivial = true
			if !absorb([]*c06req{brq}) {
				return
			}
			dupReply := &p9p.Fcall{Type: p9p.Rerror, Tag: orig.tag, Message: p9p.MessageRerror{Ename: enameOf(p9p.ErrDuptag)}}
			if !checkReplies([]*c06req{brq}, []*p9p.Fcall{dupReply}) {
				return
			}
		case op == 5 || op == 6: // duplicate of an outstanding tag
			if len(parked) == 0 {
				continue
			}
			orig := parked[w.Rng.Intn(len(parked))]
			uid++
			m := requestWithUID(g, kinds[w.Rng.Intn(len(kinds))], uid)
			if w.Rng.Intn(4) == 0 {
				// a Tflush is a request like any other as far as its own tag is concerned
				old := p9p.Tag(5000 + w.Rng.Intn(100)) // not outstanding
				if w.Rng.Intn(2) == 0 && len(parked) > 0 {
					old = parked[w.Rng.Intn(len(parked))].tag // an outstanding request: must NOT be flushed by a refused Tflush
				}
				m = p9p.MessageTflush{Oldtag: old}
			}
			fc := &p9p.Fcall{Type: m.Type(), Tag: orig.tag, Message: m}
			trace = append(trace, fmt.Sprintf("send DUPLICATE %s tag=%d uid=%d", fc.Type, orig.tag, uid))
			h.send(fc)
			if !settle() {
				w.Inconclusive("watchdog")
				return
			}
			w.Count("duplicate_probes", 1)
			nontrivial = true
			if sh.count() != seenInv {
				bad("duplicate-dispatched", "a request reusing the outstanding tag %d was dispatched to the handler", orig.tag)
				return
			}
			dupReply := &p9p.Fcall{Type: p9p.Rerror, Tag: orig.tag, Message: p9p.MessageRerror{Ename: enameOf(p9p.ErrDuptag)}}
			if !checkReplies(nil, []*p9p.Fcall{dupReply}) {
				return
			}
		case op == 7 && len(parked) > 0: // flush a running request, reuse its tag at once, let the flushed handler finish late
			idx := w.Rng.Intn(len(parked))
			a := parked[idx]
			parked = append(parked[:idx], parked[idx+1:]...)
			ftag := freeTag()
			trace = append(trace, fmt.Sprintf("flush uid=%d tag=%d (flush tag %d)", a.uid, a.tag, ftag))
			h.send(&p9p.Fcall{Type: p9p.Tflush, Tag: ftag, Message: p9p.MessageTflush{Oldtag: a.tag}})
			if !settle() {
				w.Inconclusive("watchdog")
				return
			}
			if !checkReplies(nil, []*p9p.Fcall{{Type: p9p.Rflush, Tag: ftag, Message: p9p.MessageRflush{}}}) {
				return
			}
			delete(outstanding, a.tag)
			// B reuses the tag while A's handler (which ignores cancellation) is still running
			uid++
			m := requestWithUID(g, p9p.Tstat, uid)
			fc := &p9p.Fcall{Type: m.Type(), Tag: a.tag, Message: m}
			b := &c06req{uid: uid, tag: a.tag, sent: fc, order: arrivals, expect: m}
			arrivals++
			outstanding[a.tag] = b
			trace = append(trace, fmt.Sprintf("send %s tag=%d uid=%d (reusing the flushed tag)", fc.Type, a.tag, uid))
			h.send(fc)
			if !settle() {
				w.Inconclusive("watchdog")
				return
			}
			if !absorb([]*c06req{b}) || !checkReplies(nil, nil) {
				return
			}
			// the flushed request completes late: nothing may be sent for it, B stays pending
			ar := result(a.uid)
			trace = append(trace, fmt.Sprintf("late completion of flushed uid=%d", a.uid))
			a.inv.gate <- ar
			if !settle() {
				w.Inconclusive("watchdog")
				return
			}
			if !checkReplies(nil, nil) {
				return
			}
			w.Count("flushed_then_tag_reused", 1)
			nontrivial = true
		default: // complete 1..k parked handlers
			if len(parked) == 0 {
				continue
			}
			k := 1
			if w.Rng.Intn(3) == 0 {
				k = 1 + w.Rng.Intn(len(parked))
			}
			var rel []*c06req
			for j := 0; j < k; j++ {
				idx := w.Rng.Intn(len(parked))
				rq := parked[idx]
				parked = append(parked[:idx], parked[idx+1:]...)
				// the message handed to the handler must still be the one that was sent, however
				// many frames the server has read since
				w.Count("held_messages_rechecked", 1)
				if !refcodec.EqMsg(rq.inv.msg, rq.expect) {
					bad("handler-message-changed", "the message handed to the handler of request uid=%d changed while the handler was running: now %v, sent %s", rq.uid, rq.inv.msg, refcodec.Describe(rq.sent))
					return
				}
				r := result(rq.uid)
				rq.result = &r
				trace = append(trace, fmt.Sprintf("complete uid=%d tag=%d", rq.uid, rq.tag))
				rq.inv.gate <- r
				rel = append(rel, rq)
			}
			if !settle() {
				w.Inconclusive("watchdog")
				return
			}
			if !checkReplies(rel, nil) {
				return
			}
		}
	}
	// drain
	var rel []*c06req
	for _, rq := range parked {
		r := result(rq.uid)
		rq.result = &r
		rq.inv.gate <- r
		rel = append(rel, rq)
	}
	parked = nil
	if !settle() {
		w.Inconclusive("watchdog")
		return
	}
	if !checkReplies(rel, nil) {
		return
	}
	if len(outstanding) != 0 {
		bad("unanswered", "%d request(s) never answered", len(outstanding))
		return
	}
	inv := 0
	for i := 1; i < len(completionOrder); i++ {
		if completionOrder[i] < completionOrder[i-1] {
			inv++
		}
	}
	if inv > 0 {
		w.Count("inversions", int64(inv))
		nontrivial = true
	}
	ret, q := h.close()
	if !ret {
		if q.Hung {
			w.Violate("hang", "C06:serve-hang:"+q.Sites, fmt.Sprintf("ServeConn did not return after the connection was closed; blocked at %s; script #%d", q.Sites, no), nil)
		} else {
			w.Inconclusive("watchdog waiting for ServeConn")
		}
		return
	}
	w.Count("serve_returned", 1)
	if n := sh.stopCount(); n != 1 {
		bad("stop-count", "Handler.Stop was called %d times", n)
		return
	}
	if nontrivial {
		w.NT(strings.Join(trace, ";"))
	}
	if w.SampleDue(29) {
		t := trace
		if len(t) > 18 {
			t = t[:18]
		}
		w.Sample(map[string]interface{}{"msize": msize, "trace_head": t, "steps": len(trace), "completion_inversions": inv})
	}
}

func tagsOf(rs []*c06req) []p9p.Tag {
	var out []p9p.Tag
	for _, r := range rs {
		out = append(out, r.tag)
	}
	return out
}
