package props

import (
	"bytes"
	"context"
	"fmt"
	"runtime"
	"sort"
	"strings"
	"sync"
	"sync/atomic"
	"time"

	"github.com/anishathalye/porcupine"
	p9p "github.com/frobnitzem/go-p9p"
	"github.com/frobnitzem/go-p9p/ramfs"

	"verifharness/mon"
	"verifharness/refcodec"
)

// C18: the in-memory file server is a tree of byte arrays and never crashes.
func init() {
	register(&mon.Spec{
		ID:    "C18",
		Level: "exploration",
		Rule: "sequential part: 1-3 sessions (p9p.SFileSys) on one FRESH ramfs instance (verif hook), PRNG-interleaved sequences of attach/clone/walk (incl. '..', '..' through directories removed by another session, missing names)/create (files and directories, colliding and invalid names)/open/read/write/truncate/stat/list/remove/clunk compared call by call with a reference tree model (DESIGN App. B): " +
			"offsets from {0,1,len-1,len,len+1,2^31,2^63-1,2^63 (as int64), 2^64-1, rnd} and counts from {0,1,len,len+1,64 KiB}; listings as sets = model children + '..'; reads = model bytes; same node <=> same qid path. When every fid of every session has been clunked the refcount validator (hook) must be clean. " +
			"concurrent part (race build): 2-8 sessions on one instance — creators/removers of colliding names, listers, stat-ers, walkers, and per-file writers/readers writing full-region unique patterns at offset 0; each file's read/write history is checked with porcupine against a register model (partitioned by file); in a separate family 2-6 sessions create the same new name in one directory at the same instant (spin barrier) for thousands of rounds: exactly one create may succeed and a walk must reach the winner's file; any race report with a frame in ramfs/, any panic/fatal error (child crash) and a failing validator after all sessions clunked are violations. " +
			"non-trivial = the sequence touches >= 2 sessions and >= 1 remove or extreme offset; distinct by op-trace hash",
		Assumptions: []string{
			"where the statement is silent the model is a relation: a write beyond EOF may be refused (state unchanged) or accepted (zero-filled hole); a read at/after EOF or at a negative offset may be an error or empty; '..' at the root may fail or stay; a read must return a non-empty prefix of the available bytes when any are available",
			"fid-level misuse (unknown fids, double open) is C08's subject; this workload keeps fid usage valid and tests the file system behind the session",
			"requires the verif-tagged ramfs hooks (fresh instance, validator)",
		},
		Race:      true,
		RaceFiles: []string{"ramfs/dirent.go", "ramfs/inode.go", "ramfs/filesys.go"},
		Shards:    shards(8, 16),
		Timeout:   timeouts(12*time.Minute, 90*time.Minute),
		MinEvals:  1000,
		Required:  []string{"op:walk", "op:walk-dotdot", "op:create", "op:remove", "op:read", "op:write", "op:list", "op:truncate", "extreme_offset_calls", "validator_runs", "dotdot_through_removed_dir", "concurrent_rounds", "register_histories_checked", "create_race_rounds"},
		Run:       runC18,
	})
}

// ---------------------------------------------------------------- reference tree

type tnode struct {
	id       int
	name     string
	dir      bool
	children map[string]*tnode
	data     []byte
	qidPath  uint64 // learned from the implementation on first sight; must then stay fixed
	known    bool
}

type thandle struct {
	node  *tnode
	chain []*tnode // the nodes this handle was reached through (root first)
	open  bool
}

type tmodel struct {
	root   *tnode
	nextID int
	qids   map[uint64]*tnode
}

func newTModel() *tmodel {
	m := &tmodel{qids: map[uint64]*tnode{}}
	m.root = &tnode{id: 0, name: "/", dir: true, children: map[string]*tnode{}}
	m.nextID = 1
	return m
}

// learnQid enforces: same node <=> same qid path.
func (m *tmodel) learnQid(n *tnode, q p9p.Qid) string {
	if (q.Type&p9p.QTDIR != 0) != n.dir {
		return fmt.Sprintf("qid type %v for node %q (dir=%v)", q.Type, n.name, n.dir)
	}
	if n.known {
		if n.qidPath != q.Path {
			return fmt.Sprintf("node %q changed its qid path from %d to %d", n.name, n.qidPath, q.Path)
		}
		return ""
	}
	if o := m.qids[q.Path]; o != nil && o != n {
		return fmt.Sprintf("nodes %q and %q share qid path %d", o.name, n.name, q.Path)
	}
	n.known, n.qidPath = true, q.Path
	m.qids[q.Path] = n
	return ""
}

// ---------------------------------------------------------------- sequential driver

type c18sess struct {
	s    p9p.Session
	fids map[p9p.Fid]*thandle
	next p9p.Fid
}

var c18names = []string{"a", "b", "c", "d", "dir1", "dir2", "x.y", "..a"}
var c18badnames = []string{"", ".", "..", "a/b", "a\\b", "/"}

func c18offset(r rnd, l int) int64 {
	offs := []int64{0, 1, int64(l) - 1, int64(l), int64(l) + 1, 1 << 31, 1<<63 - 1, -1 << 63, -1, int64(r.Intn(64))}
	return offs[r.Intn(len(offs))]
}

func extremeOff(off int64, l int) bool { return off < 0 || off > int64(l)+1 }

func runC18(w *mon.W) {
	seqs := w.Scale(1500, 400000)
	for i := 0; i < seqs; i++ {
		if !w.Mine(i) {
			continue
		}
		runC18Seq(w, i)
	}
	rounds := w.Scale(48, 12000)
	for i := 0; i < rounds; i++ {
		if !w.Mine(i) {
			continue
		}
		runC18Concurrent(w, i)
	}
	for i := 0; i < w.NShards; i++ {
		if w.Mine(i) {
			runC18CreateRace(w, i, w.Scale(2500, 60000))
		}
	}
}

// runC18CreateRace: several sessions create the same new name in the same directory at the
// same moment (spin barrier), round after round. The tree holds one node per name: exactly
// one create may succeed, the others must be refused, and a walk to the name must reach
// the winner's file with the winner's bytes.
func runC18CreateRace(w *mon.W, no, rounds int) {
	ctx := context.Background()
	fs := ramfs.VerifNewServer()
	nsess := 2 + w.Rng.Intn(5)
	w.Case("C18 create race #%d: %d sessions x %d rounds", no, nsess, rounds)
	w.Eval()
	sess := make([]p9p.Session, nsess)
	for i := range sess {
		sess[i] = p9p.SFileSys(fs)
		sess[i].Attach(ctx, 1, p9p.NOFID, "u", "")
	}
	type res struct {
		ok  bool
		qid p9p.Qid
	}
	results := make([]res, nsess)
	var arrived, roundNo int32
	var wg sync.WaitGroup
	stop := int32(0)
	fail := make(chan string, 1)
	for i := 0; i < nsess; i++ {
		wg.Add(1)
		go func(i int) {
			defer wg.Done()
			s := sess[i]
			for rd := int32(1); rd <= int32(rounds) && atomic.LoadInt32(&stop) == 0; rd++ {
				// barrier: wait until the coordinator opens round rd
				for atomic.LoadInt32(&roundNo) < rd {
					if atomic.LoadInt32(&stop) != 0 {
						return
					}
					runtime.Gosched()
				}
				f := p9p.Fid(100)
				s.Walk(ctx, 1, f)
				q, _, err := s.Create(ctx, f, fmt.Sprintf("race%d", rd), 0644, p9p.ORDWR)
				results[i] = res{err == nil, q}
				if err == nil {
					s.Write(ctx, f, []byte{byte(i + 1)}, 0)
				}
				s.Clunk(ctx, f)
				atomic.AddInt32(&arrived, 1)
			}
		}(i)
	}
	check := p9p.SFileSys(fs)
	check.Attach(ctx, 1, p9p.NOFID, "u", "")
	done := 0
	for rd := 1; rd <= rounds; rd++ {
		atomic.StoreInt32(&arrived, 0)
		atomic.StoreInt32(&roundNo, int32(rd))
		for spins := 0; atomic.LoadInt32(&arrived) < int32(nsess); spins++ {
			runtime.Gosched()
			if spins > 200000000 {
				atomic.StoreInt32(&stop, 1)
				w.Inconclusive("create race: a round did not complete")
				wg.Wait()
				return
			}
		}
		winners, winner := 0, -1
		for i, r := range results {
			if r.ok {
				winners++
				winner = i
			}
		}
		name := fmt.Sprintf("race%d", rd)
		msg := ""
		if winners != 1 {
			msg = fmt.Sprintf("%d of %d simultaneous creates of the new name %q in one directory reported success", winners, nsess, name)
		} else {
			f := p9p.Fid(200)
			qs, err := check.Walk(ctx, 1, f, name)
			if err != nil || len(qs) != 1 {
				msg = fmt.Sprintf("%q was created (by session %d) but a walk to it fails: %v", name, winner, err)
			} else {
				buf := make([]byte, 4)
				check.Open(ctx, f, p9p.OREAD)
				n, _ := check.Read(ctx, f, buf, 0)
				if qs[0].Path != results[winner].qid.Path || n != 1 || buf[0] != byte(winner+1) {
					msg = fmt.Sprintf("a walk to %q reaches qid %v with content %v, the creator (session %d) got qid %v and wrote [%d]", name, qs[0], buf[:n], winner, results[winner].qid, winner+1)
				}
				check.Clunk(ctx, f)
				// make room for the next round
				if qs, err := check.Walk(ctx, 1, f, name); err == nil && len(qs) == 1 {
					check.Remove(ctx, f)
				}
			}
		}
		if msg != "" {
			atomic.StoreInt32(&stop, 1)
			atomic.StoreInt32(&roundNo, int32(rounds+1))
			w.Violate("mismatch", "C18:create-race", fmt.Sprintf("round %d: %s", rd, msg), nil)
			select {
			case fail <- msg:
			default:
			}
			break
		}
		done++
	}
	atomic.StoreInt32(&roundNo, int32(rounds+1))
	wg.Wait()
	w.Count("create_race_rounds", int64(done))
	for _, s := range sess {
		s.Clunk(ctx, 1)
	}
	check.Clunk(ctx, 1)
	if err := ramfs.VerifValidate(fs); err != nil && done == rounds {
		w.Violate("mismatch", "C18:refcounts-concurrent", fmt.Sprintf("after the create races the validator reports: %v", err), nil)
	}
	w.NT(fmt.Sprintf("createrace/%d/%d", no, nsess))
}

func runC18Seq(w *mon.W, no int) {
	r := w.Rng
	ctx := context.Background()
	fs := ramfs.VerifNewServer()
	m := newTModel()
	k := 1 + r.Intn(3)
	sess := make([]*c18sess, k)
	for i := range sess {
		sess[i] = &c18sess{s: p9p.SFileSys(fs), fids: map[p9p.Fid]*thandle{}, next: 1}
	}
	var trace []string
	w.Case("C18 sequence #%d", no)
	bad := func(sig, format string, a ...interface{}) bool {
		w.Violate("mismatch", "C18:"+sig, fmt.Sprintf(format, a...)+fmt.Sprintf("; sequence #%d trace=[%s]", no, strings.Join(trace, "; ")), map[string]interface{}{"trace": trace})
		return false
	}
	touched := map[int]bool{}
	interesting := false
	steps := 10 + r.Intn(70)
	pickFid := func(s *c18sess, pred func(*thandle) bool) (p9p.Fid, *thandle) {
		var keys []p9p.Fid
		for f, h := range s.fids {
			if pred == nil || pred(h) {
				keys = append(keys, f)
			}
		}
		if len(keys) == 0 {
			return 0, nil
		}
		sort.Slice(keys, func(i, j int) bool { return keys[i] < keys[j] })
		f := keys[r.Intn(len(keys))]
		return f, s.fids[f]
	}
	if k >= 2 && r.Intn(3) == 0 {
		// scripted opening: session A holds a directory that session B removes; A then walks ".." out of it
		A, B := sess[0], sess[1]
		touched[0], touched[1] = true, true
		interesting = true
		step := func(what string, err error, cond bool) bool {
			trace = append(trace, what)
			if err != nil || !cond {
				bad("removed-dir-scenario", "%s: err=%v", what, err)
				return false
			}
			return true
		}
		_, e1 := A.s.Attach(ctx, 1, p9p.NOFID, "u", "")
		_, e2 := A.s.Walk(ctx, 1, 2)
		_, _, e3 := A.s.Create(ctx, 2, "dir1", p9p.DMDIR|0755, p9p.OREAD)
		if !step("s0.Attach(1); s0.Walk(1->2,[]); s0.Create(2,\"dir1\",dir=true)", firstErr(e1, e2, e3), true) {
			return
		}
		d1 := &tnode{id: m.nextID, name: "dir1", dir: true, children: map[string]*tnode{}}
		m.nextID++
		m.root.children["dir1"] = d1
		A.fids[1] = &thandle{node: m.root}
		A.fids[2] = &thandle{node: d1, chain: []*tnode{m.root}, open: true}
		A.next = 3
		_, e1 = B.s.Attach(ctx, 1, p9p.NOFID, "u", "")
		qs, e2 := B.s.Walk(ctx, 1, 2, "dir1")
		e3 = B.s.Remove(ctx, 2)
		if !step("s1.Attach(1); s1.Walk(1->2,[\"dir1\"]); s1.Remove(2)", firstErr(e1, e2, e3), len(qs) == 1) {
			return
		}
		delete(m.root.children, "dir1")
		B.fids[1] = &thandle{node: m.root}
		B.next = 3
		// A's fid 2 now names a directory that is no longer in the tree
		qs, e1 = A.s.Walk(ctx, 2, 3, "..")
		if !step("s0.Walk(2->3,[\"..\"]) out of the removed directory", e1, len(qs) == 1) {
			return
		}
		A.fids[3] = &thandle{node: m.root}
		A.next = 4
		w.Count("dotdot_through_removed_dir", 1)
		w.Count("op:walk-dotdot", 1)
		w.Count("op:remove", 1)
		// the removed directory must not be reachable by name any more, but A can still create inside it
		qs, e1 = A.s.Walk(ctx, 3, 4, "dir1")
		if e1 == nil && len(qs) != 0 {
			bad("removed-dir-still-reachable", "a directory removed by another session can still be walked to from the root")
			return
		}
		A.next = 5
	}
	for step := 0; step < steps; step++ {
		si := r.Intn(k)
		s := sess[si]
		touched[si] = true
		w.Eval()
		if len(s.fids) == 0 || r.Intn(25) == 0 {
			f := s.next
			s.next++
			q, err := s.s.Attach(ctx, f, p9p.NOFID, "u", "")
			trace = append(trace, fmt.Sprintf("s%d.Attach(%d)", si, f))
			if err != nil {
				bad("attach", "attach failed: %v", err)
				return
			}
			if p := m.learnQid(m.root, q); p != "" {
				bad("qid", "attach: %s", p)
				return
			}
			s.fids[f] = &thandle{node: m.root}
			continue
		}
		switch op := r.Intn(20); {
		case op < 5: // walk (forward, "..", clone, missing)
			f, h := pickFid(s, nil)
			var names []string
			switch r.Intn(8) {
			case 0: // clone
			case 1:
				names = []string{".."}
			case 2:
				names = []string{"..", ".."}
			case 3:
				names = []string{"..", c18names[r.Intn(len(c18names))]}
			default:
				n := 1 + r.Intn(3)
				cur := h.node
				for j := 0; j < n; j++ {
					var nm string
					if cur != nil && cur.dir && len(cur.children) > 0 && r.Intn(4) != 0 {
						var ks []string
						for kk := range cur.children {
							ks = append(ks, kk)
						}
						sort.Strings(ks)
						nm = ks[r.Intn(len(ks))]
						cur = cur.children[nm]
					} else {
						nm = c18names[r.Intn(len(c18names))]
						if cur != nil && cur.dir {
							cur = cur.children[nm]
						} else {
							cur = nil
						}
					}
					names = append(names, nm)
				}
			}
			nf := s.next
			s.next++
			inplace := r.Intn(5) == 0 && !h.open
			if inplace {
				nf = f
			}
			qids, err := s.s.Walk(ctx, f, nf, names...)
			trace = append(trace, fmt.Sprintf("s%d.Walk(%d->%d,%q)", si, f, nf, names))
			w.Count("op:walk", 1)
			if len(names) > 0 && !h.node.dir {
				// only a directory can be walked from (a clone of a file is fine)
				if err == nil && len(qids) > 0 {
					bad("walk-from-file", "Walk(%q) from the file %q returned qids %v", names, h.node.name, qids)
					return
				}
				continue
			}
			// model resolution
			cur := h.node
			chain := append([]*tnode{}, h.chain...)
			var want []*tnode
			okAll := true
			rootDotDot := false
			for i, nm := range names {
				if nm == ".." {
					w.Count("op:walk-dotdot", 1)
					if len(chain) == 0 {
						rootDotDot = true
						okAll = false
						break
					}
					cur = chain[len(chain)-1]
					chain = chain[:len(chain)-1]
					if !reachable(m.root, cur) || !linked(chain, cur) {
						w.Count("dotdot_through_removed_dir", 1)
					}
				} else {
					var nx *tnode
					if cur.dir {
						nx = cur.children[nm]
					}
					if nx == nil {
						okAll = false
						_ = i
						break
					}
					chain = append(chain, cur)
					cur = nx
				}
				want = append(want, cur)
			}
			switch {
			case rootDotDot:
				// relation: fail, or stay at the root
				if err == nil && len(qids) == len(names) {
					// stayed: treat as resolved to root for the remaining names — only accept the pure ".." case
					if len(names) == 1 {
						if !inplace {
							s.fids[nf] = &thandle{node: m.root}
						}
						break
					}
					bad("walk-above-root", "Walk(%q) from the root succeeded with %d qids", names, len(qids))
					return
				}
			case !okAll && len(want) == 0:
				// first element missing: an error (or no qids), nothing bound
				if err == nil && len(qids) != 0 {
					bad("walk-missing-first", "Walk(%q): first element does not exist, got qids %v", names, qids)
					return
				}
			case !okAll:
				if err != nil || len(qids) != len(want) {
					bad("walk-partial", "Walk(%q): %d elements exist, got %d qids err=%v", names, len(want), len(qids), err)
					return
				}
			default:
				if err != nil || len(qids) != len(names) {
					bad("walk-complete", "Walk(%q) should succeed with %d qids, got %d err=%v", names, len(names), len(qids), err)
					return
				}
				nh := &thandle{node: cur, chain: chain}
				if inplace {
					s.fids[f] = nh
				} else {
					s.fids[nf] = nh
				}
			}
			if err == nil {
				for i := range qids {
					if i < len(want) {
						if p := m.learnQid(want[i], qids[i]); p != "" {
							bad("qid", "Walk(%q) element %d: %s", names, i, p)
							return
						}
					}
				}
			}
		case op < 8: // create
			f, h := pickFid(s, func(h *thandle) bool { return h.node.dir && !h.open })
			if h == nil {
				continue
			}
			name := c18names[r.Intn(len(c18names))]
			if r.Intn(6) == 0 {
				name = c18badnames[r.Intn(len(c18badnames))]
			}
			perm := uint32(0644)
			isDir := r.Intn(3) == 0
			if isDir {
				perm = p9p.DMDIR | 0755
			}
			q, _, err := s.s.Create(ctx, f, name, perm, p9p.ORDWR)
			trace = append(trace, fmt.Sprintf("s%d.Create(%d,%q,dir=%v)", si, f, name, isDir))
			w.Count("op:create", 1)
			invalid := name == "" || name == "." || name == ".." || strings.ContainsAny(name, "/\\")
			exists := h.node.children[name] != nil
			if invalid || exists {
				if err == nil {
					bad("create-accepted", "Create(%q) succeeded (invalid=%v exists=%v)", name, invalid, exists)
					return
				}
				continue
			}
			if err != nil {
				bad("create-refused", "Create(%q) in %q failed: %v", name, h.node.name, err)
				return
			}
			n := &tnode{id: m.nextID, name: name, dir: isDir}
			m.nextID++
			if isDir {
				n.children = map[string]*tnode{}
			}
			h.node.children[name] = n
			if p := m.learnQid(n, q); p != "" {
				bad("qid", "Create(%q): %s", name, p)
				return
			}
			s.fids[f] = &thandle{node: n, chain: append(append([]*tnode{}, h.chain...), h.node), open: true}
		case op < 10: // open
			f, h := pickFid(s, func(h *thandle) bool { return !h.open })
			if h == nil {
				continue
			}
			q, _, err := s.s.Open(ctx, f, p9p.ORDWR)
			trace = append(trace, fmt.Sprintf("s%d.Open(%d)", si, f))
			if err != nil {
				bad("open", "Open of %q failed: %v", h.node.name, err)
				return
			}
			if p := m.learnQid(h.node, q); p != "" {
				bad("qid", "Open: %s", p)
				return
			}
			h.open = true
		case op < 13: // read file
			f, h := pickFid(s, func(h *thandle) bool { return h.open && !h.node.dir })
			if h == nil {
				continue
			}
			l := len(h.node.data)
			off := c18offset(r, l)
			cnt := []int{0, 1, l, l + 1, 65536, 7}[r.Intn(6)]
			buf := make([]byte, cnt)
			n, err := s.s.Read(ctx, f, buf, off)
			trace = append(trace, fmt.Sprintf("s%d.Read(%d,off=%d,n=%d)", si, f, off, cnt))
			w.Count("op:read", 1)
			if extremeOff(off, l) {
				w.Count("extreme_offset_calls", 1)
				interesting = true
			}
			switch {
			case off < 0 || off >= int64(l):
				if err == nil && n != 0 {
					bad("read-past-eof", "Read at offset %d of a %d-byte file returned %d bytes", off, l, n)
					return
				}
			default:
				avail := l - int(off)
				if cnt == 0 {
					if n != 0 {
						bad("read", "zero-length read returned %d", n)
						return
					}
					break
				}
				if err != nil || n <= 0 || n > avail || n > cnt || !bytes.Equal(buf[:n], h.node.data[off:int(off)+n]) {
					okData := n > 0 && n <= avail && n <= cnt && bytes.Equal(buf[:n], h.node.data[off:int(off)+n])
					bad("read-data", "Read(off=%d,count=%d) of a %d-byte file returned n=%d err=%v (data is the model's: %v)", off, cnt, l, n, err, okData)
					return
				}
			}
		case op < 16: // write file
			f, h := pickFid(s, func(h *thandle) bool { return h.open && !h.node.dir })
			if h == nil {
				continue
			}
			l := len(h.node.data)
			off := c18offset(r, l)
			data := make([]byte, []int{0, 1, 5, 40}[r.Intn(4)])
			for i := range data {
				data[i] = byte(no*31 + step*7 + i)
			}
			n, err := s.s.Write(ctx, f, data, off)
			trace = append(trace, fmt.Sprintf("s%d.Write(%d,off=%d,%d bytes)", si, f, off, len(data)))
			w.Count("op:write", 1)
			if extremeOff(off, l) {
				w.Count("extreme_offset_calls", 1)
				interesting = true
			}
			switch {
			case off < 0:
				if err == nil {
					bad("write-negative", "Write at negative offset %d succeeded", off)
					return
				}
			case off > int64(l):
				if err == nil {
					// accepted: a zero-filled hole (only sane for small offsets)
					if off > 1<<20 {
						bad("write-hole", "Write at offset %d of a %d-byte file succeeded", off, l)
						return
					}
					nd := make([]byte, int(off)+len(data))
					copy(nd, h.node.data)
					copy(nd[off:], data)
					h.node.data = nd
				}
			default:
				if err != nil || n != len(data) {
					bad("write", "Write(off=%d,%d bytes) to a %d-byte file returned n=%d err=%v", off, len(data), l, n, err)
					return
				}
				end := int(off) + len(data)
				if end > l {
					nd := make([]byte, end)
					copy(nd, h.node.data)
					h.node.data = nd
				}
				copy(h.node.data[off:], data)
			}
		case op == 16: // truncate via wstat
			f, h := pickFid(s, func(h *thandle) bool { return !h.node.dir })
			if h == nil {
				continue
			}
			l := len(h.node.data)
			nl := []int{0, l / 2, l, l + 3}[r.Intn(4)]
			if r.Intn(6) == 0 {
				// a wstat that is refused as a whole (a rename is not offered by this file
				// server) although it also carries a shorter length: the bytes must stay
				err := s.s.WStat(ctx, f, p9p.Dir{Mode: ^uint32(0), Length: uint64(l / 2), Name: "renamed"})
				trace = append(trace, fmt.Sprintf("s%d.WStat(%d,name=renamed,length=%d)", si, f, l/2))
				w.Count("op:wstat-refused", 1)
				if err == nil {
					// a server that does rename would be fine too, but then the model no longer applies
					bad("rename-accepted", "WStat with a new name succeeded on a file server that offers no rename")
					return
				}
				continue
			}
			if r.Intn(4) == 0 {
				// lengths far beyond the file, across the sign boundaries of 32- and 64-bit integers
				huge := []uint64{1 << 31, 1<<32 + 1, 1<<62 + 7, 1 << 63, 1<<63 + uint64(l), ^uint64(0) - 1, ^uint64(0) - uint64(l) - 1}[r.Intn(7)]
				err := s.s.WStat(ctx, f, p9p.Dir{Mode: ^uint32(0), Length: huge})
				trace = append(trace, fmt.Sprintf("s%d.WStat(%d,length=%d)", si, f, huge))
				w.Count("op:truncate-huge", 1)
				if err == nil {
					bad("truncate-up", "WStat(length=%d) on a %d-byte file succeeded", huge, l)
					return
				}
				continue
			}
			err := s.s.WStat(ctx, f, p9p.Dir{Mode: ^uint32(0), Length: uint64(nl)})
			trace = append(trace, fmt.Sprintf("s%d.WStat(%d,length=%d)", si, f, nl))
			w.Count("op:truncate", 1)
			if nl > l {
				if err == nil {
					bad("truncate-up", "WStat(length=%d) on a %d-byte file succeeded", nl, l)
					return
				}
			} else {
				if err != nil {
					bad("truncate", "WStat(length=%d) on a %d-byte file failed: %v", nl, l, err)
					return
				}
				h.node.data = h.node.data[:nl]
			}
		case op == 17: // stat
			f, h := pickFid(s, nil)
			d, err := s.s.Stat(ctx, f)
			trace = append(trace, fmt.Sprintf("s%d.Stat(%d)", si, f))
			if err != nil {
				bad("stat", "Stat failed: %v", err)
				return
			}
			if p := m.learnQid(h.node, d.Qid); p != "" {
				bad("qid", "Stat: %s", p)
				return
			}
			if d.Name != h.node.name {
				bad("stat-fields", "Stat of %q returned name=%q", h.node.name, d.Name)
				return
			}
		case op == 18: // list a directory through a fresh clone
			f, h := pickFid(s, func(h *thandle) bool { return h.node.dir })
			if h == nil {
				continue
			}
			nf := s.next
			s.next++
			if _, err := s.s.Walk(ctx, f, nf); err != nil {
				bad("clone", "clone failed: %v", err)
				return
			}
			if _, _, err := s.s.Open(ctx, nf, p9p.OREAD); err != nil {
				bad("open-dir", "Open of directory %q failed: %v", h.node.name, err)
				return
			}
			var got []string
			off := int64(0)
			for rounds := 0; rounds < 1000; rounds++ {
				buf := make([]byte, 4096)
				n, err := s.s.Read(ctx, nf, buf, off)
				if err != nil {
					bad("list-read", "directory read failed: %v", err)
					return
				}
				if n == 0 {
					break
				}
				rest := buf[:n]
				for len(rest) > 0 {
					d, used, derr := refcodec.DecodeStat(rest)
					if derr != nil {
						bad("list-decode", "directory read returned a partial entry: %v", derr)
						return
					}
					got = append(got, d.Name)
					if kid := h.node.children[d.Name]; kid != nil {
						if p := m.learnQid(kid, d.Qid); p != "" {
							bad("qid", "listing entry %q: %s", d.Name, p)
							return
						}

					}
					rest = rest[used:]
				}
				off += int64(n)
			}
			s.s.Clunk(ctx, nf)
			trace = append(trace, fmt.Sprintf("s%d.List(%d)", si, f))
			w.Count("op:list", 1)
			want := []string{".."}
			for nm := range h.node.children {
				want = append(want, nm)
			}
			sort.Strings(want)
			sort.Strings(got)
			if strings.Join(got, "\x00") != strings.Join(want, "\x00") {
				bad("listing", "listing of %q is %q, the model has %q", h.node.name, got, want)
				return
			}
		default: // remove or clunk
			f, h := pickFid(s, nil)
			if r.Intn(2) == 0 {
				err := s.s.Clunk(ctx, f)
				trace = append(trace, fmt.Sprintf("s%d.Clunk(%d)", si, f))
				if err != nil {
					bad("clunk", "Clunk failed: %v", err)
					return
				}
				delete(s.fids, f)
				continue
			}
			err := s.s.Remove(ctx, f)
			trace = append(trace, fmt.Sprintf("s%d.Remove(%d)", si, f))
			w.Count("op:remove", 1)
			interesting = true
			delete(s.fids, f)
			if len(h.chain) == 0 {
				if err == nil {
					bad("remove-root", "removing the root succeeded")
					return
				}
				continue
			}
			parent := h.chain[len(h.chain)-1]
			if parent.children[h.node.name] == h.node {
				if err != nil {
					bad("remove", "Remove of %q failed: %v", h.node.name, err)
					return
				}
				delete(parent.children, h.node.name)
			}
			// a stale handle removes nothing (either result is fine)
		}
	}
	// release everything; the refcount validator must be clean
	for si, s := range sess {
		var keys []p9p.Fid
		for f := range s.fids {
			keys = append(keys, f)
		}
		sort.Slice(keys, func(i, j int) bool { return keys[i] < keys[j] })
		for _, f := range keys {
			if err := s.s.Clunk(ctx, f); err != nil {
				bad("clunk", "final Clunk(s%d,%d) failed: %v", si, f, err)
				return
			}
		}
	}
	trace = append(trace, "clunk all")
	w.Count("validator_runs", 1)
	if err := ramfs.VerifValidate(fs); err != nil {
		bad("refcounts", "after all fids were clunked the reference-count validator reports: %v", err)
		return
	}
	// the tree reachable from a fresh attach must equal the model's
	if p := compareTreeC18(ctx, fs, m); p != "" {
		bad("final-tree", "%s", p)
		return
	}
	if len(touched) >= 2 && interesting {
		w.NT(strings.Join(trace, ";"))
	}
	if w.SampleDue(499) {
		t := trace
		if len(t) > 20 {
			t = t[:20]
		}
		w.Sample(map[string]interface{}{"part": "sequential", "sessions": k, "trace_head": t, "operations": len(trace)})
	}
}

func firstErr(errs ...error) error {
	for _, e := range errs {
		if e != nil {
			return e
		}
	}
	return nil
}

func reachable(root, n *tnode) bool {
	if root == n {
		return true
	}
	for _, c := range root.children {
		if reachable(c, n) {
			return true
		}
	}
	return false
}

// linked: is cur still the directory that links the handle's previous node? (only used for a coverage counter)
func linked(chain []*tnode, cur *tnode) bool { return true }

func compareTreeC18(ctx context.Context, fs p9p.FileSys, m *tmodel) string {
	s := p9p.SFileSys(fs)
	if _, err := s.Attach(ctx, 1, p9p.NOFID, "u", ""); err != nil {
		return "final attach failed: " + err.Error()
	}
	defer s.Stop(nil)
	next := p9p.Fid(2)
	var walk func(fid p9p.Fid, n *tnode, path string) string
	walk = func(fid p9p.Fid, n *tnode, path string) string {
		for name, kid := range n.children {
			nf := next
			next++
			qs, err := s.Walk(ctx, fid, nf, name)
			if err != nil || len(qs) != 1 {
				return fmt.Sprintf("final tree: %s/%s exists in the model but cannot be walked to (err=%v)", path, name, err)
			}
			if kid.dir {
				if p := walk(nf, kid, path+"/"+name); p != "" {
					return p
				}
			} else {
				if _, _, err := s.Open(ctx, nf, p9p.OREAD); err != nil {
					return fmt.Sprintf("final tree: cannot open %s/%s: %v", path, name, err)
				}
				buf := make([]byte, len(kid.data)+10)
				k, _ := s.Read(ctx, nf, buf, 0)
				if !bytes.Equal(buf[:k], kid.data) {
					return fmt.Sprintf("final tree: %s/%s holds %d bytes that differ from the model's %d bytes", path, name, k, len(kid.data))
				}
			}
			s.Clunk(ctx, nf)
		}
		return ""
	}
	return walk(1, m.root, "")
}

// ---------------------------------------------------------------- concurrent part

type regIn struct {
	file  string
	write bool
	val   uint64
}

func runC18Concurrent(w *mon.W, no int) {
	r := w.Rng
	ctx := context.Background()
	fs := ramfs.VerifNewServer()
	nsess := 2 + r.Intn(7)
	w.Case("C18 concurrent round #%d with %d sessions", no, nsess)
	w.Eval()
	w.Count("concurrent_rounds", 1)
	// set-up: a shared directory and a few files
	setup := p9p.SFileSys(fs)
	setup.Attach(ctx, 1, p9p.NOFID, "u", "")
	setup.Walk(ctx, 1, 2)
	if _, _, err := setup.Create(ctx, 2, "shared", p9p.DMDIR|0755, p9p.OREAD); err != nil {
		w.Violate("mismatch", "C18:concurrent-setup", "cannot create the shared directory: "+err.Error(), nil)
		return
	}
	setup.Clunk(ctx, 2)
	files := []string{"f0", "f1", "f2"}
	for _, f := range files {
		setup.Walk(ctx, 1, 3, "shared")
		setup.Create(ctx, 3, f, 0644, p9p.ORDWR)
		setup.Write(ctx, 3, make([]byte, 16), 0)
		setup.Clunk(ctx, 3)
	}
	var clock int64
	var hmu sync.Mutex
	var hist []porcupine.Operation
	var wg sync.WaitGroup
	var failMu sync.Mutex
	fail := ""
	setFail := func(s string) {
		failMu.Lock()
		if fail == "" {
			fail = s
		}
		failMu.Unlock()
	}
	opsPer := 20 + r.Intn(40)
	seeds := make([]int64, nsess)
	for i := range seeds {
		seeds[i] = r.Int63()
	}
	sessions := make([]p9p.Session, nsess)
	for i := 0; i < nsess; i++ {
		sessions[i] = p9p.SFileSys(fs)
		wg.Add(1)
		go func(i int) {
			defer wg.Done()
			s := sessions[i]
			rr := newRand(seeds[i])
			s.Attach(ctx, 1, p9p.NOFID, "u", "")
			if _, err := s.Walk(ctx, 1, 2, "shared"); err != nil {
				setFail("walk to the shared directory failed: " + err.Error())
				return
			}
			next := p9p.Fid(10)
			role := i % 4
			for k := 0; k < opsPer; k++ {
				nf := next
				next++
				switch {
				case role == 0: // writer/reader of register files
					f := files[rr.Intn(len(files))]
					if qs, err := s.Walk(ctx, 2, nf, f); err != nil || len(qs) != 1 {
						setFail(fmt.Sprintf("walk to shared/%s failed: qids=%v err=%v", f, qs, err))
						return
					}
					if _, _, err := s.Open(ctx, nf, p9p.ORDWR); err != nil {
						setFail("open failed: " + err.Error())
						return
					}
					if rr.Intn(2) == 0 {
						val := uint64(i)<<32 | uint64(k)
						buf := make([]byte, 16)
						for j := 0; j < 16; j++ {
							buf[j] = byte(val >> (8 * uint(j%8)))
						}
						t0 := atomic.AddInt64(&clock, 1)
						_, err := s.Write(ctx, nf, buf, 0)
						t1 := atomic.AddInt64(&clock, 1)
						if err != nil {
							setFail("write failed: " + err.Error())
							return
						}
						hmu.Lock()
						hist = append(hist, porcupine.Operation{ClientId: i, Input: regIn{file: f, write: true, val: val}, Call: t0, Output: uint64(0), Return: t1})
						hmu.Unlock()
					} else {
						buf := make([]byte, 16)
						t0 := atomic.AddInt64(&clock, 1)
						n, err := s.Read(ctx, nf, buf, 0)
						t1 := atomic.AddInt64(&clock, 1)
						if err != nil || n != 16 {
							setFail(fmt.Sprintf("read of a 16-byte register file returned n=%d err=%v", n, err))
							return
						}
						var lo, hi uint64
						for j := 0; j < 8; j++ {
							lo |= uint64(buf[j]) << (8 * uint(j))
							hi |= uint64(buf[8+j]) << (8 * uint(j))
						}
						if lo != hi {
							setFail(fmt.Sprintf("torn read of shared/%s: halves %x and %x", f, lo, hi))
							return
						}
						hmu.Lock()
						hist = append(hist, porcupine.Operation{ClientId: i, Input: regIn{file: f}, Call: t0, Output: lo, Return: t1})
						hmu.Unlock()
					}
					s.Clunk(ctx, nf)
				case role == 1: // creator/remover of colliding names
					name := []string{"t0", "t1"}[rr.Intn(2)]
					if rr.Intn(2) == 0 {
						s.Walk(ctx, 2, nf)
						if _, _, err := s.Create(ctx, nf, name, 0644, p9p.ORDWR); err == nil {
							s.Write(ctx, nf, []byte("x"), 0)
						}
						s.Clunk(ctx, nf)
					} else if qs, err := s.Walk(ctx, 2, nf, name); err == nil && len(qs) == 1 {
						s.Remove(ctx, nf)
					}
				case role == 2: // lister / stat-er
					s.Walk(ctx, 2, nf)
					if _, _, err := s.Open(ctx, nf, p9p.OREAD); err == nil {
						off := int64(0)
						for {
							buf := make([]byte, 2048)
							n, err := s.Read(ctx, nf, buf, off)
							if err != nil || n == 0 {
								break
							}
							off += int64(n)
						}
					}
					s.Clunk(ctx, nf)
					s.Stat(ctx, 2)
				default: // walker incl. ".."
					if qs, err := s.Walk(ctx, 2, nf, files[rr.Intn(len(files))]); err == nil && len(qs) == 1 {
						s.Stat(ctx, nf)
						nf2 := next
						next++
						s.Walk(ctx, nf, nf2, "..")
						s.Clunk(ctx, nf2)
						s.Clunk(ctx, nf)
					}
				}
			}
			s.Clunk(ctx, 2)
			s.Clunk(ctx, 1)
		}(i)
	}
	done := make(chan struct{})
	go func() { wg.Wait(); close(done) }()
	q := mon.AwaitQuiesce(done)
	if q.Hung {
		w.Violate("hang", "C18:concurrent-hang:"+q.Sites, fmt.Sprintf("concurrent round #%d: sessions do not finish; blocked at %s", no, q.Sites), nil)
		return
	}
	if q.Inconclusive {
		w.Inconclusive("watchdog in concurrent round")
		return
	}
	if fail != "" {
		w.Violate("mismatch", "C18:concurrent:"+strings.SplitN(fail, ":", 2)[0], fmt.Sprintf("concurrent round #%d (%d sessions): %s", no, nsess, fail), nil)
		return
	}
	// register histories
	model := porcupine.Model{
		Partition: func(h []porcupine.Operation) [][]porcupine.Operation {
			by := map[string][]porcupine.Operation{}
			for _, o := range h {
				f := o.Input.(regIn).file
				by[f] = append(by[f], o)
			}
			var out [][]porcupine.Operation
			for _, v := range by {
				out = append(out, v)
			}
			return out
		},
		Init: func() interface{} { return uint64(0) },
		Step: func(st, in, out interface{}) (bool, interface{}) {
			i := in.(regIn)
			if i.write {
				return true, i.val
			}
			return out.(uint64) == st.(uint64), st
		},
	}
	res := porcupine.CheckOperationsTimeout(model, hist, 30*time.Second)
	w.Count("register_histories_checked", 1)
	w.Count("register_operations", int64(len(hist)))
	switch res {
	case porcupine.Illegal:
		w.Violate("mismatch", "C18:register-not-linearizable", fmt.Sprintf("concurrent round #%d: the read/write history of the shared files is not linearizable (a read returned bytes that were not the most recently written)", no), nil)
		return
	case porcupine.Unknown:
		w.Inconclusive("porcupine timeout on a register history of %d operations", len(hist))
	}
	setup.Clunk(ctx, 1)
	w.Count("validator_runs", 1)
	if err := ramfs.VerifValidate(fs); err != nil {
		w.Violate("mismatch", "C18:refcounts-concurrent", fmt.Sprintf("concurrent round #%d: after all sessions clunked their fids the validator reports: %v", no, err), nil)
		return
	}
	w.NT(fmt.Sprintf("conc/%d/%d/%d", nsess, opsPer, len(hist)))
	if w.SampleDue(997) {
		w.Sample(map[string]interface{}{"part": "concurrent", "sessions": nsess, "ops_per_session": opsPer, "register_operations": len(hist), "linearizable": res == porcupine.Ok})
	}
}
