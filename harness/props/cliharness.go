package props

import (
	"context"
	"fmt"
	"net"
	"strings"
	"sync"

	p9p "github.com/frobnitzem/go-p9p"

	"verifharness/refcodec"
	"verifharness/wire"
)

// cliH is a scripted fake 9P server (raw wire, reference codec) in front of which a
// real p9p.CSession client runs.
type cliH struct {
	cli, srv *wire.End
	cliConn  net.Conn // what CSession sees (possibly a Fault / Tap around cli)
	fault    *wire.Fault
	sess     p9p.Session
	ctx      context.Context
	cancel   context.CancelFunc
	msize    uint32 // what the fake server answers in Rversion

	mu       sync.Mutex
	inbox    []*p9p.Fcall // requests received and not yet taken by the script
	frames   int
	version  *p9p.Fcall
	rdErr    error
	onReq    func(fc *p9p.Fcall) // optional auto-responder (called on the server reader goroutine)
	rdDone   chan struct{}
	badFrame []string
	wmu      sync.Mutex
	// handshake overrides
	handshakeRaw  []byte // if set, the Tversion is answered with exactly these bytes
	forceVersion  string // answer with this version string instead of echoing the client's
	zeroMeansZero bool   // msize 0 is answered literally (default: 0 = echo the proposal)
}

func (h *cliH) frameCount() int { h.mu.Lock(); defer h.mu.Unlock(); return h.frames }

// newCliH creates the pipe and the fake server; the client session is created by dial.
func newCliH(serverMsize uint32, bufCap int) *cliH {
	h := &cliH{msize: serverMsize, rdDone: make(chan struct{})}
	h.cli, h.srv = wire.BPipe(bufCap)
	h.fault = wire.NewFault(h.cli)
	h.cliConn = h.fault
	h.ctx, h.cancel = context.WithCancel(context.Background())
	go h.reader()
	return h
}

func (h *cliH) dial() error {
	s, err := p9p.CSession(h.ctx, h.cliConn)
	h.sess = s
	return err
}

func (h *cliH) reader() {
	defer close(h.rdDone)
	var acc []byte
	buf := make([]byte, 1<<16)
	for {
		n, err := h.srv.Read(buf)
		acc = append(acc, buf[:n]...)
		for len(acc) >= 4 {
			sz := int(uint32(acc[0]) | uint32(acc[1])<<8 | uint32(acc[2])<<16 | uint32(acc[3])<<24)
			if sz < 7 {
				h.mu.Lock()
				h.badFrame = append(h.badFrame, fmt.Sprintf("frame with size %d", sz))
				h.mu.Unlock()
				return
			}
			if len(acc) < sz {
				break
			}
			fr := append([]byte{}, acc[:sz]...)
			acc = acc[sz:]
			fc, derr := refcodec.DecodeFrame(fr)
			if derr != nil {
				h.mu.Lock()
				h.badFrame = append(h.badFrame, fmt.Sprintf("undecodable frame from the client: %v", derr))
				h.mu.Unlock()
				continue
			}
			h.mu.Lock()
			h.frames++
			first := h.version == nil
			if first {
				h.version = fc
			}
			cb := h.onReq
			if !first && cb == nil {
				h.inbox = append(h.inbox, fc)
			}
			h.mu.Unlock()
			if first {
				if h.handshakeRaw != nil {
					h.replyRaw(h.handshakeRaw)
					continue
				}
				if tv, ok := fc.Message.(p9p.MessageTversion); ok {
					ms := h.msize
					if ms == 0 && !h.zeroMeansZero {
						ms = tv.MSize
					}
					ver := tv.Version
					if h.forceVersion != "" || h.zeroMeansZero {
						ver = h.forceVersion
					}
					h.reply(&p9p.Fcall{Type: p9p.Rversion, Tag: fc.Tag, Message: p9p.MessageRversion{MSize: ms, Version: ver}})
				}
				continue
			}
			if cb != nil {
				cb(fc)
			}
		}
		if err != nil {
			h.mu.Lock()
			h.rdErr = err
			h.mu.Unlock()
			return
		}
	}
}

func (h *cliH) reply(fc *p9p.Fcall) error {
	b, err := refcodec.Frame(fc)
	if err != nil {
		return err
	}
	return h.replyRaw(b)
}

func (h *cliH) replyRaw(b []byte) error {
	h.wmu.Lock()
	defer h.wmu.Unlock()
	_, err := h.srv.Write(b)
	return err
}

func (h *cliH) take() []*p9p.Fcall {
	h.mu.Lock()
	defer h.mu.Unlock()
	r := h.inbox
	h.inbox = nil
	return r
}

func (h *cliH) problems() string {
	h.mu.Lock()
	defer h.mu.Unlock()
	return strings.Join(h.badFrame, "; ")
}

func (h *cliH) close() {
	h.cancel()
	h.srv.Close()
	h.cli.Close()
}

// ---- calls carrying a uid in request and reply

type callKind int

const (
	ckRead callKind = iota
	ckStat
	ckWalk
	ckOpen
	ckAttach
	ckWrite
	ckCreate
	nCallKinds
)

type callRes struct {
	uid  int // uid extracted from the result (-1 = none)
	err  error
	desc string
}

// doCall issues a session call whose arguments carry uid and extracts the uid carried
// by the result.
func doCall(ctx context.Context, s p9p.Session, k callKind, uid int) callRes {
	f := p9p.Fid(uid)
	switch k {
	case ckRead:
		buf := make([]byte, 64)
		n, err := s.Read(ctx, f, buf, int64(uid))
		if err != nil {
			return callRes{uid: -1, err: err}
		}
		if n < 0 || n > len(buf) {
			return callRes{uid: -3, desc: fmt.Sprintf("Read returned n=%d for a %d-byte buffer", n, len(buf))}
		}
		var u int
		fmt.Sscanf(string(buf[:n]), "uid-%d", &u)
		return callRes{uid: u, desc: string(buf[:n])}
	case ckStat:
		d, err := s.Stat(ctx, f)
		if err != nil {
			return callRes{uid: -1, err: err}
		}
		var u int
		fmt.Sscanf(d.Name, "uid-%d", &u)
		return callRes{uid: u, desc: d.Name}
	case ckWalk:
		q, err := s.Walk(ctx, f, f+1, "a")
		if err != nil {
			return callRes{uid: -1, err: err}
		}
		if len(q) != 1 {
			return callRes{uid: -2, desc: fmt.Sprint(q)}
		}
		return callRes{uid: int(q[0].Path), desc: fmt.Sprint(q)}
	case ckOpen:
		q, _, err := s.Open(ctx, f, p9p.OREAD)
		if err != nil {
			return callRes{uid: -1, err: err}
		}
		return callRes{uid: int(q.Path)}
	case ckAttach:
		q, err := s.Attach(ctx, f, p9p.NOFID, "u", "a")
		if err != nil {
			return callRes{uid: -1, err: err}
		}
		return callRes{uid: int(q.Path)}
	case ckWrite:
		n, err := s.Write(ctx, f, []byte("x"), int64(uid))
		if err != nil && n == 0 {
			return callRes{uid: -1, err: err}
		}
		return callRes{uid: n}
	default:
		q, _, err := s.Create(ctx, f, "n", 0644, p9p.ORDWR)
		if err != nil {
			return callRes{uid: -1, err: err}
		}
		return callRes{uid: int(q.Path)}
	}
}

// uidOfRequest extracts the uid a request carries (its fid).
func uidOfRequest(fc *p9p.Fcall) int {
	switch m := fc.Message.(type) {
	case p9p.MessageTread:
		return int(m.Fid)
	case p9p.MessageTstat:
		return int(m.Fid)
	case p9p.MessageTwalk:
		return int(m.Fid)
	case p9p.MessageTopen:
		return int(m.Fid)
	case p9p.MessageTattach:
		return int(m.Fid)
	case p9p.MessageTwrite:
		return int(m.Fid)
	case p9p.MessageTcreate:
		return int(m.Fid)
	case p9p.MessageTclunk:
		return int(m.Fid)
	}
	return -1
}

// replyFor builds the well-typed reply to req carrying uid.
func replyFor(req *p9p.Fcall, uid int) *p9p.Fcall {
	var m p9p.Message
	switch req.Message.(type) {
	case p9p.MessageTread:
		m = p9p.MessageRread{Data: []byte(fmt.Sprintf("uid-%d", uid))}
	case p9p.MessageTstat:
		m = p9p.MessageRstat{Stat: p9p.Dir{Name: fmt.Sprintf("uid-%d", uid)}}
	case p9p.MessageTwalk:
		m = p9p.MessageRwalk{Qids: []p9p.Qid{{Path: uint64(uid)}}}
	case p9p.MessageTopen:
		m = p9p.MessageRopen{Qid: p9p.Qid{Path: uint64(uid)}}
	case p9p.MessageTattach:
		m = p9p.MessageRattach{Qid: p9p.Qid{Path: uint64(uid)}}
	case p9p.MessageTwrite:
		m = p9p.MessageRwrite{Count: uint32(uid)}
	case p9p.MessageTcreate:
		m = p9p.MessageRcreate{Qid: p9p.Qid{Path: uint64(uid)}}
	case p9p.MessageTclunk:
		m = p9p.MessageRclunk{}
	default:
		m = p9p.MessageRerror{Ename: "unexpected request"}
	}
	return &p9p.Fcall{Type: m.Type(), Tag: req.Tag, Message: m}
}
