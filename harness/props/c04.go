package props

import (
	"bytes"
	"encoding/hex"
	"fmt"
	"runtime"
	"strings"
	"time"

	p9p "github.com/frobnitzem/go-p9p"

	"verifharness/gen"
	"verifharness/mon"
	"verifharness/refcodec"
)

// C04: decoding untrusted bytes is panic-free, proportionate and stable.
const (
	c04K = 64        // bytes allocated per input byte that valid encodings may need (x2 headroom, DESIGN App. C)
	c04C = 256 << 10 // constant part: 4 x the largest value a 16-bit length can name
)

func init() {
	register(&mon.Spec{
		ID:    "C04",
		Level: "exploration",
		Rule: "byte strings fed to Codec.Unmarshal(*Fcall), Codec.Unmarshal(*Dir) and DecodeDir: valid encodings of all 27 kinds and structure-aware mutations of them — every length/count field (located by the reference codec's field map) replaced by " +
			"{0,1,true+-1,0x7FFF,0x8000,0xFFFE,0xFFFF,2^31,2^32-1,rnd}, truncation at every byte, random extension, type byte swept 0-255, runs of 1/2/4/8 bytes overwritten with boundary patterns at every offset, pure random strings of 0-64 bytes, messages and directory entries carrying one string of 20 000-65 535 bytes in six flavours of valid/invalid UTF-8, Rstat/Twstat whose stat is as large as its size field allows with every enclosing count, 3000 records per process carrying ever new owner names; " +
			"DecodeDir's size field swept over all 65536 values on a short body (that sub-space is exhaustive). Oracle: no panic (recovered in-process; a fatal error kills the child and is attributed through the case log), " +
			fmt.Sprintf("TotalAlloc delta around the call <= %d + %d*len(input) (re-measured twice, minimum taken), and whenever decoding succeeds decode(encode(v)) == v. ", c04C, c04K) +
			"non-trivial = input is not a canonical valid encoding and has >= 3 bytes; distinct by hash of the input",
		Assumptions: []string{
			"'small constant plus linear' is instantiated as 256 KiB + 64 B per input byte: one 16-bit-bounded buffer (<=64 KiB, doubled by the string copy) before the decoder notices the input is short is tolerated; a 16-bit count times an element size, or any 32-bit length, is not",
			"the statement's 'every byte string' is sampled, not enumerated",
		},
		Shards:     shards(8, 16),
		Timeout:    timeouts(12*time.Minute, 90*time.Minute),
		MinEvals:   5000,
		MemLimitMB: 3072,
		Required:   []string{"outcome:error", "outcome:success-stable", "class:valid", "class:lenfield", "class:truncate", "class:extend", "class:typebyte", "class:overwrite", "class:random", "class:longstring", "class:hugestat", "class:history", "class:dirsize-sweep", "decodedir_calls", "alloc_measurements"},
		Run:        runC04,
	})
}

func measureAlloc(f func()) uint64 {
	var a, b runtime.MemStats
	runtime.ReadMemStats(&a)
	f()
	runtime.ReadMemStats(&b)
	return b.TotalAlloc - a.TotalAlloc
}

type c04 struct {
	w     *mon.W
	codec p9p.Codec
}

func (c *c04) bound(n int) uint64 { return uint64(c04C + c04K*n) }

// tryFcall decodes x as a message under all three monitors.
func (c *c04) tryFcall(x []byte, class string, canonical bool) {
	w := c.w
	w.Case("Unmarshal(Fcall) class=%s input=%s", class, hex.EncodeToString(x))
	w.Eval()
	w.Count("class:"+class, 1)
	if !canonical && len(x) >= 3 {
		w.NT(string(x))
	}
	var fc p9p.Fcall
	var err error
	var panicked interface{}
	call := func() {
		defer func() { panicked = recover() }()
		fc = p9p.Fcall{}
		err = c.codec.Unmarshal(x, &fc)
	}
	n := measureAlloc(call)
	w.Count("alloc_measurements", 1)
	w.Max("max_alloc_bytes", int64(n))
	if len(x) > 0 {
		w.Max("max_alloc_per_input_byte_x100", int64(n*100)/int64(len(x)))
	}
	if panicked != nil {
		w.Violate("crash", "C04:panic:Unmarshal(Fcall):"+fmt.Sprintf("%.60v", panicked), fmt.Sprintf("Unmarshal panicked: %v on input %s", panicked, hexHead(x)), map[string]string{"input_hex": hex.EncodeToString(x)})
		return
	}
	if n > c.bound(len(x)) {
		m2 := measureAlloc(call)
		m3 := measureAlloc(call)
		if m2 < n {
			n = m2
		}
		if m3 < n {
			n = m3
		}
		if n > c.bound(len(x)) {
			w.Violate("alloc", "C04:alloc:Unmarshal(Fcall):type"+fmt.Sprint(typeByte(x)),
				fmt.Sprintf("decoding %d input bytes allocated %d bytes (bound %d): input %s", len(x), n, c.bound(len(x)), hexHead(x)), map[string]string{"input_hex": hex.EncodeToString(x)})
		}
	}
	if w.SampleDue(4999) {
		w.Sample(map[string]interface{}{"decoder": "Unmarshal(Fcall)", "class": class, "input_hex": hexHead(x), "alloc_bytes": n, "bound": c.bound(len(x)), "error": fmt.Sprint(err)})
	}
	if err != nil {
		w.Count("outcome:error", 1)
		return
	}
	// stability
	v := fc
	b2, merr := c.codec.Marshal(&v)
	if merr != nil {
		w.Violate("mismatch", "C04:unstable:reencode-error", fmt.Sprintf("decoded value cannot be re-encoded: %v; input %s decoded as %s", merr, hexHead(x), refcodec.Describe(&v)), map[string]string{"input_hex": hex.EncodeToString(x)})
		return
	}
	var v2 p9p.Fcall
	if derr := c.codec.Unmarshal(b2, &v2); derr != nil {
		w.Violate("mismatch", "C04:unstable:redecode-error", fmt.Sprintf("re-encoded value does not decode: %v; input %s", derr, hexHead(x)), map[string]string{"input_hex": hex.EncodeToString(x)})
		return
	}
	if !refcodec.EqFcall(&v, &v2) {
		w.Violate("mismatch", "C04:unstable:"+v.Type.String(), fmt.Sprintf("decode(encode(decode(x))) != decode(x): first %s, second %s; input %s", refcodec.Describe(&v), refcodec.Describe(&v2), hexHead(x)), map[string]string{"input_hex": hex.EncodeToString(x)})
		return
	}
	w.Count("outcome:success-stable", 1)
}

func typeByte(x []byte) int {
	if len(x) == 0 {
		return -1
	}
	return int(x[0])
}

// tryDir decodes x as a directory entry through DecodeDir and through Unmarshal(*Dir).
func (c *c04) tryDir(x []byte, class string, canonical bool) {
	w := c.w
	w.Case("DecodeDir class=%s input=%s", class, hex.EncodeToString(x))
	w.Eval()
	w.Count("class:"+class, 1)
	w.Count("decodedir_calls", 1)
	if !canonical && len(x) >= 3 {
		w.NT("dir" + string(x))
	}
	for variant := 0; variant < 2; variant++ {
		var d p9p.Dir
		var err error
		var panicked interface{}
		call := func() {
			defer func() { panicked = recover() }()
			d = p9p.Dir{}
			if variant == 0 {
				err = p9p.DecodeDir(c.codec, bytes.NewReader(x), &d)
			} else {
				err = c.codec.Unmarshal(x, &d)
			}
		}
		name := []string{"DecodeDir", "Unmarshal(Dir)"}[variant]
		n := measureAlloc(call)
		w.Count("alloc_measurements", 1)
		w.Max("max_alloc_bytes", int64(n))
		if panicked != nil {
			w.Violate("crash", "C04:panic:"+name+":"+fmt.Sprintf("%.60v", panicked), fmt.Sprintf("%s panicked: %v on input %s", name, panicked, hexHead(x)), map[string]string{"input_hex": hex.EncodeToString(x)})
			continue
		}
		if n > c.bound(len(x)) {
			m2 := measureAlloc(call)
			if m2 < n {
				n = m2
			}
			if n > c.bound(len(x)) {
				w.Violate("alloc", "C04:alloc:"+name, fmt.Sprintf("%s of %d input bytes allocated %d bytes (bound %d): %s", name, len(x), n, c.bound(len(x)), hexHead(x)), map[string]string{"input_hex": hex.EncodeToString(x)})
			}
		}
		if err != nil {
			w.Count("outcome:error", 1)
			continue
		}
		var buf bytes.Buffer
		if eerr := p9p.EncodeDir(c.codec, &buf, &d); eerr != nil {
			w.Violate("mismatch", "C04:unstable:dir-reencode-error", fmt.Sprintf("decoded Dir cannot be re-encoded: %v; input %s", eerr, hexHead(x)), nil)
			continue
		}
		var d2 p9p.Dir
		if derr := p9p.DecodeDir(c.codec, bytes.NewReader(buf.Bytes()), &d2); derr != nil || !refcodec.EqDir(d, d2) {
			w.Violate("mismatch", "C04:unstable:dir", fmt.Sprintf("%s: decode(encode(decode(x))) != decode(x): first %v, second %v (err %v); input %s", name, d, d2, derr, hexHead(x)), map[string]string{"input_hex": hex.EncodeToString(x)})
			continue
		}
		w.Count("outcome:success-stable", 1)
	}
}

var c04patterns = [][]byte{
	{0x00}, {0xFF}, {0x80}, {0x7F},
	{0xFF, 0xFF}, {0x00, 0x80}, {0xFF, 0x7F}, {0xFE, 0xFF},
	{0xFF, 0xFF, 0xFF, 0xFF}, {0x00, 0x00, 0x00, 0x80}, {0xFF, 0xFF, 0xFF, 0x7F}, {0x00, 0x00, 0x01, 0x00},
	{0xFF, 0xFF, 0xFF, 0xFF, 0xFF, 0xFF, 0xFF, 0xFF}, {0, 0, 0, 0, 0, 0, 0, 0x80},
}

func runC04(w *mon.W) {
	c := &c04{w: w, codec: p9p.NewCodec()}
	g := gen.Small(w.Rng)
	g.MaxStr, g.MaxData, g.MaxList = 40, 60, 5
	gbig := gen.Small(w.Rng)
	seeds := w.Scale(1400, 90000)
	lenVals := func(f refcodec.LenField) []uint32 {
		return []uint32{0, 1, f.Val + 1, f.Val - 1, 0x7FFF, 0x8000, 0xFFFE, 0xFFFF, 1 << 31, 0xFFFFFFFF, w.Rng.Uint32(), 0x8000 + uint32(w.Rng.Intn(8))}
	}
	for i := 0; i < seeds; i++ {
		if !w.Mine(i) {
			continue
		}
		kind := gen.Kinds[(i/w.NShards)%len(gen.Kinds)]
		gg := g
		if w.Rng.Intn(10) == 0 {
			gg = gbig
		}
		fc := gg.Fcall(kind)
		body, fields, err := refcodec.EncodeMap(fc)
		if err != nil {
			continue
		}
		c.tryFcall(body, "valid", true)
		// every length/count field x every hostile value
		for _, f := range fields {
			for _, v := range lenVals(f) {
				x := append([]byte{}, body...)
				for k := 0; k < f.Width; k++ {
					x[f.Off+k] = byte(v >> (8 * uint(k)))
				}
				c.tryFcall(x, "lenfield", false)
				// ... and the same with the tail cut right after the field (nothing to back the claim)
				if w.Rng.Intn(3) == 0 {
					c.tryFcall(x[:f.Off+f.Width], "lenfield", false)
				}
			}
		}
		// truncation at every byte (small messages: all prefixes; larger: a sample)
		if len(body) <= 80 {
			for k := 0; k < len(body); k++ {
				c.tryFcall(body[:k], "truncate", false)
			}
		} else {
			for t := 0; t < 12; t++ {
				c.tryFcall(body[:w.Rng.Intn(len(body))], "truncate", false)
			}
		}
		// extension
		ext := make([]byte, 1+w.Rng.Intn(16))
		w.Rng.Read(ext)
		c.tryFcall(append(append([]byte{}, body...), ext...), "extend", false)
		// type byte sweep (on a sample of seeds: 256 inputs each)
		if w.Rng.Intn(12) == 0 {
			for t := 0; t < 256; t++ {
				x := append([]byte{}, body...)
				x[0] = byte(t)
				c.tryFcall(x, "typebyte", int(x[0]) == int(body[0]))
			}
		}
		// boundary patterns over every offset
		if len(body) <= 64 && w.Rng.Intn(3) == 0 {
			for _, p := range c04patterns {
				for off := 1; off+len(p) <= len(body); off++ {
					x := append([]byte{}, body...)
					copy(x[off:], p)
					c.tryFcall(x, "overwrite", bytes.Equal(x, body))
				}
			}
		}
		// directory entries
		if kind == p9p.Rstat || kind == p9p.Twstat || w.Rng.Intn(6) == 0 {
			d := gg.SmallDir()
			sb, _ := refcodec.EncodeStat(d)
			c.tryDir(sb, "valid", true)
			for k := 0; k < len(sb); k += 1 + w.Rng.Intn(3) {
				c.tryDir(sb[:k], "truncate", false)
			}
			for _, p := range c04patterns {
				off := w.Rng.Intn(len(sb))
				if off+len(p) > len(sb) {
					continue
				}
				x := append([]byte{}, sb...)
				copy(x[off:], p)
				c.tryDir(x, "overwrite", false)
			}
			// string length fields inside the stat
			_, sfields, _ := refcodec.EncodeMap(&p9p.Fcall{Type: p9p.Rstat, Message: p9p.MessageRstat{Stat: d}})
			for _, f := range sfields {
				if f.Kind == "statouter" {
					continue
				}
				off := f.Off - 5 // skip type[1] tag[2] outer[2]
				for _, v := range []uint32{0, f.Val + 1, 0xFFFF, 0xFFFE, 0x8000} {
					x := append([]byte{}, sb...)
					x[off], x[off+1] = byte(v), byte(v>>8)
					c.tryDir(x, "lenfield", false)
				}
			}
		}
	}
	// long strings of every flavour of (in)valid UTF-8: whatever a decoder does to a string must
	// survive the re-encoding into a 16-bit length prefix and, inside a stat, a 16-bit size
	nl := w.Scale(160, 6000)
	for i := 0; i < nl; i++ {
		if !w.Mine(i) {
			continue
		}
		lens := []int{21845, 21846, 32767, 32768, 43000, 65535 - 60, 65535, 20000 + w.Rng.Intn(45536)}
		n := lens[w.Rng.Intn(len(lens))]
		b := make([]byte, n)
		switch w.Rng.Intn(6) {
		case 0:
			for k := range b {
				b[k] = 0xFF
			}
		case 1:
			for k := range b {
				b[k] = []byte{'a', 0xFF}[k%2]
			}
		case 2:
			w.Rng.Read(b)
		case 3:
			copy(b, strings.Repeat("é€", n/5+1)) // valid multi-byte text, possibly cut inside a rune at the end
		case 4:
			for k := range b {
				b[k] = []byte{0xC3, 0x28, 0xE2, 0x82, 0x00, 0x80}[k%6]
			}
		default:
			for k := range b {
				b[k] = 'x'
			}
			b[w.Rng.Intn(n)] = 0x80
		}
		str := string(b)
		var fc *p9p.Fcall
		switch w.Rng.Intn(6) {
		case 0:
			fc = &p9p.Fcall{Type: p9p.Rerror, Tag: 1, Message: p9p.MessageRerror{Ename: str}}
		case 1:
			fc = &p9p.Fcall{Type: p9p.Tversion, Tag: p9p.NOTAG, Message: p9p.MessageTversion{MSize: 8192, Version: str}}
		case 2:
			fc = &p9p.Fcall{Type: p9p.Tattach, Tag: 1, Message: p9p.MessageTattach{Fid: 1, Afid: p9p.NOFID, Uname: "u", Aname: str}}
		case 3:
			fc = &p9p.Fcall{Type: p9p.Twalk, Tag: 1, Message: p9p.MessageTwalk{Fid: 1, Newfid: 2, Wnames: []string{"a", str}}}
		case 4:
			fc = &p9p.Fcall{Type: p9p.Tcreate, Tag: 1, Message: p9p.MessageTcreate{Fid: 1, Name: str, Perm: 0644}}
		default:
			if len(str) > 65535-49-3 {
				str = str[:65535-49-3]
			}
			d := p9p.Dir{Name: str, UID: "u", GID: "g", MUID: "m"}
			if sb, err := refcodec.EncodeStat(d); err == nil {
				c.tryDir(sb, "longstring", true)
			}
			fc = &p9p.Fcall{Type: p9p.Rstat, Tag: 1, Message: p9p.MessageRstat{Stat: d}}
		}
		if body, _, err := refcodec.EncodeMap(fc); err == nil {
			c.tryFcall(body, "longstring", true)
		}
	}
	// stat records as large as their 16-bit size field allows (inner size 65533-65535: the
	// enclosing count of Rstat/Twstat can then no longer hold "size + 2"), with the enclosing
	// count as written by the codec and with hostile values
	for i := 0; i < w.Scale(8, 200); i++ {
		if !w.Mine(i) {
			continue
		}
		inner := 65533 + w.Rng.Intn(3)
		d := p9p.Dir{Type: 1, Dev: 2, Qid: p9p.Qid{Version: 3, Path: 4}, Mode: 0644, Length: 5, Name: strings.Repeat("n", inner-47-9), UID: "uid", GID: "gid", MUID: "mid"}
		for _, fc := range []*p9p.Fcall{{Type: p9p.Rstat, Tag: 7, Message: p9p.MessageRstat{Stat: d}}, {Type: p9p.Twstat, Tag: 8, Message: p9p.MessageTwstat{Fid: 9, Stat: d}}} {
			x, err := c.codec.Marshal(fc)
			if err != nil {
				continue
			}
			off := 3
			if fc.Type == p9p.Twstat {
				off += 4
			}
			for _, v := range []int{-1, 0xFFFF, 0xFFFE, 0, 1, 48, 49, inner} {
				y := append([]byte{}, x...)
				if v >= 0 {
					y[off], y[off+1] = byte(v), byte(v>>8)
				}
				c.tryFcall(y, "hugestat", false)
			}
		}
	}
	// a long history of records carrying ever new owner names (whatever a decoder remembers
	// between calls must not break it)
	for i := 0; i < w.Scale(1, 4); i++ {
		if !w.Mine(i) {
			continue
		}
		for k := 0; k < 3000; k++ {
			d := p9p.Dir{Name: fmt.Sprintf("n%d-%d", w.Shard, k), UID: fmt.Sprintf("owner-%d-%d", w.Shard, k), GID: fmt.Sprintf("group-%d-%d", w.Shard, k), MUID: fmt.Sprintf("m-%d-%d", w.Shard, k)}
			sb, _ := refcodec.EncodeStat(d)
			c.tryDir(sb, "history", true)
			if body, _, err := refcodec.EncodeMap(&p9p.Fcall{Type: p9p.Rstat, Tag: 1, Message: p9p.MessageRstat{Stat: d}}); err == nil {
				c.tryFcall(body, "history", true)
			}
		}
	}
	// pure random strings
	nr := w.Scale(20000, 600000)
	for i := 0; i < nr; i++ {
		if !w.Mine(i) {
			continue
		}
		x := make([]byte, w.Rng.Intn(65))
		w.Rng.Read(x)
		if len(x) > 0 && w.Rng.Intn(2) == 0 {
			x[0] = refcodec.AllTypes[w.Rng.Intn(len(refcodec.AllTypes))]
		}
		c.tryFcall(x, "random", false)
		if w.Rng.Intn(4) == 0 {
			c.tryDir(x, "random", false)
		}
	}
	// exhaustive sweep of DecodeDir's size field over a short body
	d := p9p.Dir{Name: "n", UID: "u", GID: "g", MUID: "m", Qid: p9p.Qid{Path: 7}}
	sb, _ := refcodec.EncodeStat(d)
	for v := 0; v < 65536; v++ {
		if !w.Mine(v) {
			continue
		}
		x := append([]byte{}, sb...)
		x[0], x[1] = byte(v), byte(v>>8)
		if w.Thorough() || v%4 == w.Shard%4 || v >= 0xFF00 || v < 0x100 {
			c.tryDir(x, "dirsize-sweep", v == int(sb[0])|int(sb[1])<<8)
		}
	}
	if w.Thorough() {
		w.SetExhaustive(false)
	}
}
