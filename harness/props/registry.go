// Package props holds one workload + oracle per property (cNN.go).
package props

import (
	"math/rand"
	"sort"
	"time"

	"verifharness/mon"
)

var registry = map[string]*mon.Spec{}

func register(s *mon.Spec) { registry[s.ID] = s }

func Get(id string) *mon.Spec { return registry[id] }

func IDs() []string {
	var ids []string
	for k := range registry {
		ids = append(ids, k)
	}
	sort.Strings(ids)
	return ids
}

func shards(q, t int) func(string) int {
	return func(tier string) int {
		if tier == "thorough" {
			return t
		}
		return q
	}
}

func timeouts(q, t time.Duration) func(string) time.Duration {
	return func(tier string) time.Duration {
		if tier == "thorough" {
			return t
		}
		return q
	}
}

func sortStrings(s []string) { sort.Strings(s) }

func newRand(seed int64) *rand.Rand { return rand.New(rand.NewSource(seed)) }
