package props

import (
	"bytes"
	"context"
	"fmt"
	"sync/atomic"
	"time"

	p9p "github.com/frobnitzem/go-p9p"

	"verifharness/gen"
	"verifharness/mon"
	"verifharness/refcodec"
	"verifharness/wire"
)

// C02: no frame written to a connection ever exceeds msize (DESIGN.md section 4, C02).
func init() {
	register(&mon.Spec{
		ID:    "C02",
		Level: "exploration",
		Rule: "(message, msize, ctx) triples: messages of all 27 kinds from the C01 generator; msize from {24,25,64,255,256,4096,65536,2^20} and every value within +-40 of the message's own frame length L (clipped to [24,2^20]); " +
			"ctx live / cancelled / CancelledCtxt; Tread counts from {0,1,M-12,M-11,M-10,2^31,2^32-12,2^32-11,2^32-1}; on fresh channels and on one long-lived channel with SetMSize between writes; write sequences {no deadline, context deadline, clock past that deadline, no deadline x3} on a connection that honours write deadlines against a virtual clock. " +
			"Oracle: bytes captured on the conn must be exactly the reference frame (unmodified, Twrite cut to msize with data a prefix, Tread count=min(count,M-11)) or nothing plus Overflow(err)==L-M. " +
			"non-trivial = |L-M|<=40 or the truncate/clamp/reject/cancel path taken; distinct by (kind, L-M, path)",
		Assumptions: []string{
			"the capture conn accepts every Write completely (write errors are C11/C12 territory)",
			"msize >= 24 as in the property statement; sampled, not exhaustive",
		},
		Shards:   shards(8, 16),
		Timeout:  timeouts(12*time.Minute, 90*time.Minute),
		MinEvals: 1000,
		Required: []string{"path:fit", "path:fit-exact", "path:over-by-1", "path:truncated", "path:clamped", "path:rejected", "path:cancelled", "long_lived_channel_writes", "overlong_string_messages", "deadline_sequences"},
		Run:      runC02,
	})
}

type c02ctx int

const (
	ctxLive c02ctx = iota
	ctxCancelled
	ctxCancelledCtxt
	ctxDeadline
)

func mkctx(k c02ctx) (context.Context, func()) {
	switch k {
	case ctxCancelled:
		c, cancel := context.WithCancel(context.Background())
		cancel()
		return c, func() {}
	case ctxCancelledCtxt:
		return p9p.CancelledCtxt{}, func() {}
	case ctxDeadline:
		c, cancel := context.WithDeadline(context.Background(), time.Now().Add(time.Hour))
		return c, cancel
	}
	return context.Background(), func() {}
}

func clipM(m int) int {
	if m < 24 {
		return 24
	}
	if m > 1<<20 {
		return 1 << 20
	}
	return m
}

// deadlinesC02: writes on one channel over a connection that honours write deadlines
// (against a virtual clock): without deadline, with a context deadline, and - once the clock
// has passed that deadline, well within the library's own default - without deadline again.
// Each write must put exactly its one complete frame on the connection.
func deadlinesC02(w *mon.W, g *gen.G, no int) {
	M := 4096
	a, b := wire.BPipe(1 << 20)
	var skew int64
	a.Clock = func() time.Time { return time.Now().Add(time.Duration(atomic.LoadInt64(&skew))) }
	ch := p9p.NewChannel(a, M)
	w.Case("C02 deadline sequence #%d", no)
	w.Eval()
	w.Count("deadline_sequences", 1)
	defer a.Close()
	defer b.Close()
	step := func(ctx context.Context, what string) bool {
		g.MaxStr, g.MaxData, g.MaxList = 40, 200, 4
		fc, _ := fitting(g, 7, M)
		fr := refcodec.MustFrame(clampTread(fc, M)) // an outgoing Tread has its count lowered to what a reply can carry
		err := ch.WriteFcall(ctx, fc)
		if err != nil {
			if ctx.Err() != nil {
				w.Inconclusive("real deadline missed")
				return false
			}
			w.Violate("mismatch", "C02:deadline-sequence", fmt.Sprintf("%s: WriteFcall of a %d-byte frame failed: %v", what, len(fr), err), nil)
			return false
		}
		got := make([]byte, len(fr)+16)
		n := 0
		for n < len(fr) {
			k, rerr := b.Read(got[n:])
			n += k
			if rerr != nil {
				break
			}
		}
		if n != len(fr) || !bytes.Equal(got[:n], fr) {
			w.Violate("mismatch", "C02:deadline-sequence", fmt.Sprintf("%s: the connection carries %d bytes, want exactly the %d-byte frame", what, n, len(fr)), nil)
			return false
		}
		return true
	}
	if !step(context.Background(), "first write, no deadline") {
		return
	}
	dctx, cancel := context.WithTimeout(context.Background(), 10*time.Second)
	defer cancel()
	if !step(dctx, "write with a 10 s context deadline") {
		return
	}
	if no%2 == 1 {
		cancel()
	}
	atomic.StoreInt64(&skew, int64(time.Duration(11+w.Rng.Intn(8))*time.Second))
	for k := 0; k < 3; k++ {
		if !step(context.Background(), fmt.Sprintf("write #%d without deadline after the earlier deadline has passed", k+1)) {
			return
		}
	}
	w.NT(fmt.Sprintf("deadlines/%d", no))
}

func runC02(w *mon.W) {
	for i := 0; i < w.Scale(60, 3000); i++ {
		if w.Mine(i) {
			deadlinesC02(w, gen.Small(w.Rng), i)
		}
	}
	total := w.Scale(30000, 6000000)
	g := gen.New(w.Rng)
	g.MaxData = 1<<20 - 23
	gs := gen.Small(w.Rng)
	fixedM := []int{24, 25, 64, 255, 256, 4096, 65536, 1 << 20}

	// one long-lived channel (state carried by the bufio writer and SetMSize)
	llconn := &wire.Script{}
	llch := p9p.NewChannel(llconn, 4096)

	for i := 0; i < total; i++ {
		if !w.Mine(i) {
			continue
		}
		kind := gen.Kinds[(i/w.NShards)%len(gen.Kinds)]
		gg := gs
		if w.Rng.Intn(40) == 0 {
			gg = g
		}
		fc := gg.Fcall(kind)
		if w.Rng.Intn(150) == 0 {
			// a string too long for its 2-byte length field: not representable, but the
			// frame bound must hold for it like for any other message
			checkOverlongC02(w, g, fixedM)
			continue
		}
		ref, err := refcodec.Frame(fc)
		if err != nil {
			continue
		}
		L := len(ref)
		var M int
		switch w.Rng.Intn(10) {
		case 0, 1:
			M = fixedM[w.Rng.Intn(len(fixedM))]
		case 2:
			M = clipM(24 + w.Rng.Intn(1<<20-24))
		default:
			M = clipM(L - 40 + w.Rng.Intn(81))
		}
		if tr, ok := fc.Message.(p9p.MessageTread); ok {
			// boundary counts relative to M
			cs := []uint32{0, 1, uint32(M - 12), uint32(M - 11), uint32(M - 10), 1 << 31, 1<<32 - 12, 1<<32 - 11, 1<<32 - 1, tr.Count}
			tr.Count = cs[w.Rng.Intn(len(cs))]
			fc.Message = tr
			ref, _ = refcodec.Frame(fc)
		}
		ck := ctxLive
		switch w.Rng.Intn(12) {
		case 0:
			ck = ctxCancelled
		case 1:
			ck = ctxCancelledCtxt
		case 2:
			ck = ctxDeadline
		}
		useLL := w.Rng.Intn(3) == 0 || M > 70000
		var conn *wire.Script
		var ch p9p.Channel
		if useLL {
			conn, ch = llconn, llch
			conn.ResetWrites()
			ch.SetMSize(M)
			w.Count("long_lived_channel_writes", 1)
		} else {
			conn = &wire.Script{}
			ch = p9p.NewChannel(conn, M)
		}
		checkWriteC02(w, ch, conn, fc, ref, M, ck, useLL)
	}
}

func checkWriteC02(w *mon.W, ch p9p.Channel, conn *wire.Script, fc *p9p.Fcall, ref []byte, M int, ck c02ctx, ll bool) {
	kind := fc.Type.String()
	L := len(ref)
	w.Eval()
	w.CaseQuiet(fmt.Sprintf("WriteFcall %s L=%d msize=%d ctx=%d longlived=%v", refcodec.Describe(fc), L, M, ck, ll))

	// expected outcome, from the reference frame alone
	var want []byte // nil = nothing emitted
	wantOverflow := 0
	path := ""
	var dataCopy, dataOrig []byte
	switch m := fc.Message.(type) {
	case p9p.MessageTwrite:
		dataOrig = m.Data
		dataCopy = append([]byte{}, m.Data...)
		if L <= M {
			want, path = ref, "fit"
		} else {
			cut := len(m.Data) - (L - M)
			if cut < 0 {
				wantOverflow, path = L-M, "rejected"
			} else {
				t := *fc
				t.Message = p9p.MessageTwrite{Fid: m.Fid, Offset: m.Offset, Data: m.Data[:cut]}
				want = refcodec.MustFrame(&t)
				path = "truncated"
			}
		}
	case p9p.MessageTread:
		cnt := m.Count
		if uint64(cnt)+11 > uint64(M) {
			cnt = uint32(M - 11)
			path = "clamped"
		} else {
			path = "fit"
		}
		t := *fc
		t.Message = p9p.MessageTread{Fid: m.Fid, Offset: m.Offset, Count: cnt}
		want = refcodec.MustFrame(&t)
	default:
		if L <= M {
			want, path = ref, "fit"
		} else {
			wantOverflow, path = L-M, "rejected"
		}
	}
	if path == "fit" && L == M {
		path = "fit-exact"
	}
	if path == "rejected" && L == M+1 {
		w.Count("path:over-by-1", 1)
	}
	if path == "truncated" && L == M+1 {
		w.Count("path:over-by-1", 1)
	}
	cancelled := ck == ctxCancelled || ck == ctxCancelledCtxt
	if cancelled {
		want, wantOverflow, path = nil, 0, "cancelled"
	}
	w.Count("path:"+path, 1)
	d := L - M
	if d >= -40 && d <= 40 || path != "fit" {
		w.NT(fmt.Sprintf("%s/%d/%s", kind, d, path))
	}

	ctx, cancel := mkctx(ck)
	in := *fc // WriteFcall may rewrite the Fcall it is given
	err := ch.WriteFcall(ctx, &in)
	cancel()
	got := conn.Written()

	if w.SampleDue(311) {
		w.Sample(map[string]interface{}{"message": refcodec.Describe(fc), "frame_len": L, "msize": M, "path": path, "emitted_bytes": len(got), "err": fmt.Sprint(err)})
	}

	sig := func(what string) string { return "C02:" + what + ":" + kind }
	ctxs := fmt.Sprintf("L=%d msize=%d path=%s msg=%s", L, M, path, refcodec.Describe(fc))
	if len(got) > 0 {
		// whatever else happens: what went out must be exactly one frame within msize
		if len(got) < 4 || int(uint32(got[0])|uint32(got[1])<<8|uint32(got[2])<<16|uint32(got[3])<<24) != len(got) {
			w.Violate("mismatch", sig("not-one-frame"), fmt.Sprintf("emitted %d bytes that are not exactly one length-prefixed frame (%s); %s", len(got), hexHead(got), ctxs), nil)
		}
		if len(got) > M {
			w.Violate("mismatch", sig("frame-exceeds-msize"), fmt.Sprintf("emitted a %d-byte frame with msize %d; %s", len(got), M, ctxs), nil)
		}
	}
	if want == nil {
		if len(got) != 0 {
			w.Violate("mismatch", sig("emitted-on-"+path), fmt.Sprintf("expected nothing on the wire but %d bytes were emitted (err=%v); %s", len(got), err, ctxs), nil)
		}
		if err == nil {
			w.Violate("mismatch", sig("no-error-on-"+path), fmt.Sprintf("expected an error, got nil; %s", ctxs), nil)
		} else if wantOverflow > 0 && p9p.Overflow(err) != wantOverflow {
			w.Violate("mismatch", sig("overflow-amount"), fmt.Sprintf("Overflow(err)=%d (err=%v), want %d; %s", p9p.Overflow(err), err, wantOverflow, ctxs), nil)
		}
	} else {
		if err != nil {
			w.Violate("mismatch", sig("error-on-"+path), fmt.Sprintf("unexpected error %v (emitted %d bytes); %s", err, len(got), ctxs), nil)
		} else if !bytes.Equal(got, want) {
			w.Violate("mismatch", sig("frame-bytes-"+path), fmt.Sprintf("emitted frame differs from the expected one at byte %d: got %s (%d bytes) want %s (%d bytes); %s",
				firstDiff(got, want), hexHead(got), len(got), hexHead(want), len(want), ctxs), nil)
		}
	}
	if dataOrig != nil && !bytes.Equal(dataOrig, dataCopy) {
		w.Violate("mismatch", sig("caller-buffer-modified"), "the caller's Twrite data was modified; "+ctxs, nil)
	}
}

// checkOverlongC02 writes a message carrying a string of 65536..70000 bytes. No
// reference encoding exists for it; what is judged is the frame bound alone: whatever
// reaches the conn is exactly one frame of at most msize, and a message whose real size
// exceeds msize emits nothing and returns an error.
func checkOverlongC02(w *mon.W, g *gen.G, fixedM []int) {
	n := 65536 + w.Rng.Intn(4465)
	long := g.StrN(n)
	var m p9p.Message
	var L int
	switch w.Rng.Intn(5) {
	case 0:
		m, L = p9p.MessageRerror{Ename: long}, 4+3+2+n
	case 1:
		m, L = p9p.MessageTversion{MSize: 8192, Version: long}, 4+3+4+2+n
	case 2:
		m, L = p9p.MessageTattach{Fid: 1, Afid: p9p.NOFID, Uname: "u", Aname: long}, 4+3+4+4+2+1+2+n
	case 3:
		m, L = p9p.MessageTcreate{Fid: 1, Name: long, Perm: 0644, Mode: 1}, 4+3+4+2+n+4+1
	default:
		m, L = p9p.MessageTwalk{Fid: 1, Newfid: 2, Wnames: []string{"a", long}}, 4+3+4+4+2+2+1+2+n
	}
	M := []int{65536, 65535, 1 << 20, L - 1, L, L + 1, L - 40, 66000, 4096}[w.Rng.Intn(9)]
	M = clipM(M)
	conn := &wire.Script{}
	ch := p9p.NewChannel(conn, M)
	fc := &p9p.Fcall{Type: m.Type(), Tag: 7, Message: m}
	w.Eval()
	w.Count("overlong_string_messages", 1)
	w.CaseQuiet(fmt.Sprintf("WriteFcall %s with a %d-byte string (real frame size %d) msize=%d", fc.Type, n, L, M))
	err := ch.WriteFcall(context.Background(), fc)
	got := conn.Written()
	w.NT(fmt.Sprintf("overlong/%s/%d", fc.Type, L-M))
	if len(got) > 0 {
		if len(got) < 4 || int(uint32(got[0])|uint32(got[1])<<8|uint32(got[2])<<16|uint32(got[3])<<24) != len(got) {
			w.Violate("mismatch", "C02:not-one-frame:overlong-string", fmt.Sprintf("a %s with a %d-byte string emitted %d bytes that are not one length-prefixed frame (msize %d)", fc.Type, n, len(got), M), nil)
		}
		if len(got) > M {
			w.Violate("mismatch", "C02:frame-exceeds-msize:overlong-string", fmt.Sprintf("a %s with a %d-byte string emitted a %d-byte frame with msize %d (err=%v)", fc.Type, n, len(got), M, err), nil)
		}
		if err != nil {
			w.Violate("mismatch", "C02:emitted-with-error:overlong-string", fmt.Sprintf("a %s with a %d-byte string emitted %d bytes and returned %v", fc.Type, n, len(got), err), nil)
		}
	} else if err == nil {
		w.Violate("mismatch", "C02:nothing-and-no-error:overlong-string", fmt.Sprintf("a %s with a %d-byte string emitted nothing and returned no error (msize %d)", fc.Type, n, M), nil)
	}
	if L > M && len(got) > 0 {
		w.Violate("mismatch", "C02:oversize-emitted:overlong-string", fmt.Sprintf("a %s whose real frame size is %d was written with msize %d (%d bytes emitted)", fc.Type, L, M, len(got)), nil)
	}
}
