package props

import (
	"context"
	"fmt"
	"runtime"
	"sync"
	"sync/atomic"
	"time"

	p9p "github.com/frobnitzem/go-p9p"

	"verifharness/fsx"
	"verifharness/mon"
)

// C13: every file-system entry handed to the session is released exactly once.
func init() {
	register(&mon.Spec{
		ID:    "C13",
		Level: "fault_enumeration",
		Rule: "operation sequences (biased towards binding many fids: attach, walks onto new fids, in-place walks, opens, creates of files and directories, clunks, removes) are first run fault-free on SFileSys(instrumented FS) to number the FS calls 1..N; " +
			"then EVERY single call index is failed in both flavours (error, nil result), sampled pairs of indices are failed, and Session.Stop is issued after EVERY prefix of the sequence. Oracle: the release monitor inside the FS (each handle has a unique id and a state: " +
			"double release, use after release/consume — also through its File or directory iterator, use of a partial-walk placeholder), the fid-table hook after every call (nothing released stays bound), the reference model for which handle receives which release call, and after Stop: every handle that was bound is released by exactly one Clunk, the hook table holds no entry, no handle that was handed out for binding is still live; a call not returned at quiescence is a hang. A second family queues an operation B on a fid's lock while operation A on the same fid is parked inside the file system on one of the release paths (clunk, remove, in-place walk, create, mkdir whose OpenDir fails) or merely using the entry (read, write, directory read, stat) and lets the same monitors judge what B then does to the entry. A third family reaches Stop through p9p.ServeConn's own shutdown (context cancel, peer EOF, read error, reply-write failure) while handlers are parked inside attach / walk / create and bind their entry after having been cancelled (the scripts and machinery of C11). Two small families: a Tauth naming a fid that is in use on a file system that requires authentication; and six requests binding the same unused fid at the same instant (attach, walk, clone; spin barrier; thousands of rounds) of which exactly one may succeed. " +
			"non-trivial = the sequence bound >= 2 handles and the fault hit a call made while >= 1 handle was bound; distinct by (sequence hash, fault indices, stop point)",
		Assumptions: []string{
			"exhaustive over (sequence, single fault index x 2 flavours) and (sequence, stop prefix) for the generated sequences; sequences themselves and fault pairs are sampled",
			"an entry returned with a partial walk or by a create that the session cannot complete never becomes bound and is outside the statement; the monitor only insists it is never used",
			"requires the verif-tagged fid-table hook",
		},
		Shards:   shards(8, 16),
		Timeout:  timeouts(12*time.Minute, 90*time.Minute),
		MinEvals: 1000,
		Required: []string{"path:clunk", "path:remove", "path:consumed-by-create", "path:replaced-by-inplace-walk", "path:stop", "single_fault_runs", "pair_fault_runs", "stop_prefix_runs", "faults_that_hit", "queued_pair_runs", "served_shutdown_runs", "entries_bound_after_cancel", "auth_on_bound_fid_runs", "bind_race_rounds"},
		Run:      runC13,
	})
}

// genProductive generates a sequence that mostly uses fids it has (probably) bound.
func genProductive(r rnd, n int) []fsx.Op {
	ops := []fsx.Op{{Kind: "attach", Fid: 1, Afid: p9p.NOFID}}
	bound := []p9p.Fid{1}
	next := p9p.Fid(2)
	pick := func() p9p.Fid {
		if len(bound) == 0 || r.Intn(8) == 0 {
			return c08fids[r.Intn(len(c08fids))]
		}
		return bound[r.Intn(len(bound))]
	}
	drop := func(f p9p.Fid) {
		for i, b := range bound {
			if b == f {
				bound = append(bound[:i], bound[i+1:]...)
				return
			}
		}
	}
	walks := [][]string{{"d"}, {"a"}, {"d", "g"}, {"d", "g", "h"}, {"d", "e"}, {"b"}, {}, {".."}, {"d", "missing"}, {"missing"}, {"xmissing"}, {"d", "nilx"}, {"kfail1"}, {"rfail1"}, {"kfaildir"}, {"odfail1"}, {"ofail1"}, {"iofail1"}, {"wfail1"}, {"wnil1"}}
	for len(ops) < n {
		switch r.Intn(15) {
		case 14: // walk/attach onto a fid that is (probably) already bound
			if r.Intn(2) == 0 {
				ops = append(ops, fsx.Op{Kind: "walk", Fid: pick(), NewFid: pick(), Names: walks[r.Intn(len(walks))]})
			} else {
				ops = append(ops, fsx.Op{Kind: "attach", Fid: pick(), Afid: p9p.NOFID})
			}
		case 0, 1, 2:
			nf := next
			next++
			ops = append(ops, fsx.Op{Kind: "walk", Fid: pick(), NewFid: nf, Names: walks[r.Intn(len(walks))]})
			bound = append(bound, nf)
		case 3:
			ops = append(ops, fsx.Op{Kind: "walk", Fid: pick(), NewFid: 0, Names: walks[r.Intn(len(walks))]})
			f := ops[len(ops)-1].Fid
			ops[len(ops)-1].NewFid = f // in place
		case 4, 5:
			ops = append(ops, fsx.Op{Kind: "open", Fid: pick(), Mode: []p9p.Flag{p9p.OREAD, p9p.OWRITE, p9p.ORDWR}[r.Intn(3)]})
		case 6, 7:
			perm := uint32(0644)
			if r.Intn(2) == 0 {
				perm |= p9p.DMDIR
			}
			ops = append(ops, fsx.Op{Kind: "create", Fid: pick(), Name: c08create[r.Intn(len(c08create))], Perm: perm, Mode: p9p.ORDWR})
		case 8:
			ops = append(ops, fsx.Op{Kind: "read", Fid: pick(), N: 16, Off: 0})
		case 9:
			ops = append(ops, fsx.Op{Kind: "write", Fid: pick(), N: 16, Off: 0})
		case 10:
			ops = append(ops, fsx.Op{Kind: "stat", Fid: pick()})
		case 11:
			f := pick()
			ops = append(ops, fsx.Op{Kind: "clunk", Fid: f})
			drop(f)
		case 12:
			f := pick()
			ops = append(ops, fsx.Op{Kind: "remove", Fid: f})
			drop(f)
		default:
			nf := next
			next++
			ops = append(ops, fsx.Op{Kind: "attach", Fid: nf, Afid: p9p.NOFID})
			bound = append(bound, nf)
		}
	}
	return ops
}

func countPaths(w *mon.W, r seqResult) {
	for _, l := range r.labels {
		switch l {
		case "clunk-ok", "clunk-fs-error-still-unbinds":
			w.Count("path:clunk", 1)
		case "remove-ok", "remove-fs-error-still-unbinds":
			w.Count("path:remove", 1)
		case "create-file-ok", "create-dir-ok":
			w.Count("path:consumed-by-create", 1)
		case "walk-complete-inplace":
			w.Count("path:replaced-by-inplace-walk", 1)
		}
	}
	w.Count("path:stop", int64(r.stopReleased))
}

// c13Queued: operation B is queued on a fid's lock while operation A on the same fid is
// inside the file system; A then takes one of the release paths (or fails on it). The
// release monitor judges what B does to the entry afterwards.
func c13Queued(w *mon.W, no int) {
	r := w.Rng
	ctx := context.Background()
	fs := fsx.New()
	sess := p9p.SFileSys(fs)
	type opf func() error
	stat := func(f p9p.Fid) opf { return func() error { _, err := sess.Stat(ctx, f); return err } }
	clunk := func(f p9p.Fid) opf { return func() error { return sess.Clunk(ctx, f) } }
	remove := func(f p9p.Fid) opf { return func() error { return sess.Remove(ctx, f) } }
	clone := func(f, g p9p.Fid) opf { return func() error { _, err := sess.Walk(ctx, f, g); return err } }
	read := func(f p9p.Fid) opf {
		return func() error { _, err := sess.Read(ctx, f, make([]byte, 8), 0); return err }
	}
	sess.Attach(ctx, 0, p9p.NOFID, "u", "")
	sess.Walk(ctx, 0, 1, "d") // fid 1: directory /d
	sess.Walk(ctx, 0, 2, "a") // fid 2: file /a, open
	sess.Open(ctx, 2, p9p.ORDWR)
	sess.Walk(ctx, 0, 3, "d", "g") // fid 3: directory /d/g, open
	sess.Open(ctx, 3, p9p.OREAD)
	var A opf
	var f p9p.Fid
	parkOp := "" // FS call of A at which it parks
	name := ""
	switch r.Intn(11) {
	case 7:
		// A merely uses the entry: nothing may release it while A is inside the file system
		f, name, parkOp = 2, "read of an open file", "read"
		A = read(2)
	case 8:
		f, name, parkOp = 2, "write to an open file", "write"
		A = func() error { _, err := sess.Write(ctx, 2, []byte("w"), 0); return err }
	case 9:
		f, name, parkOp = 3, "read of an open directory", "next"
		A = func() error { _, err := sess.Read(ctx, 3, make([]byte, 512), 0); return err }
	case 10:
		f, name, parkOp = 1, "stat", "stat"
		A = stat(1)
	case 0:
		f, name, parkOp = 1, "mkdir whose OpenDir fails", "opendir"
		A = func() error { _, _, err := sess.Create(ctx, 1, "odfail7", p9p.DMDIR|0755, p9p.OREAD); return err }
	case 1:
		f, name, parkOp = 1, "mkdir whose OpenDir fails (parked in create)", "create"
		A = func() error { _, _, err := sess.Create(ctx, 1, "odfail8", p9p.DMDIR|0755, p9p.OREAD); return err }
	case 2:
		f, name, parkOp = 2, "clunk", "clunk"
		A = clunk(2)
	case 3:
		f, name, parkOp = 2, "remove", "remove"
		A = remove(2)
	case 4:
		f, name, parkOp = 1, "in-place walk", "walk"
		A = func() error { _, err := sess.Walk(ctx, 1, 1, "g"); return err }
	case 5:
		f, name, parkOp = 1, "create of a file", "create"
		A = func() error { _, _, err := sess.Create(ctx, 1, "queued-new", 0644, p9p.ORDWR); return err }
	default:
		f, name, parkOp = 3, "clunk of an open directory", "clunk"
		A = clunk(3)
	}
	bs := []struct {
		n string
		f opf
	}{{"Stat", stat(f)}, {"Clunk", clunk(f)}, {"Remove", remove(f)}, {"clone", clone(f, 9)}, {"Read", read(f)}}
	B := bs[r.Intn(len(bs))]
	desc := fmt.Sprintf("queued #%d: A = %s on fid %d (parked in FS %s), B = %s on the same fid queued behind it", no, name, f, parkOp, B.n)
	w.Case("C13 %s", desc)
	w.Eval()
	w.Count("queued_pair_runs", 1)
	release := make(chan struct{})
	parkedCh := make(chan struct{})
	var once sync.Once
	fs.Gate = func(c *fsx.Call) {
		if c.Op == parkOp {
			first := false
			once.Do(func() { first = true })
			if first {
				close(parkedCh)
				<-release
			}
		}
	}
	aDone, bDone := make(chan struct{}), make(chan struct{})
	go func() { A(); close(aDone) }()
	if q := mon.AwaitQuiesce(parkedCh); !q.Done {
		close(release)
		w.Inconclusive("A never reached the FS call %s: %s", parkOp, desc)
		return
	}
	go func() { B.f(); close(bDone) }()
	settle() // B is now waiting for the fid
	close(release)
	both := make(chan struct{})
	go func() { <-aDone; <-bDone; close(both) }()
	if q := mon.AwaitQuiesce(both); q.Hung {
		w.Violate("hang", "C13:queued-hang:"+q.Sites, fmt.Sprintf("%s: the operations do not return; blocked at %s", desc, q.Sites), nil)
		return
	} else if q.Inconclusive {
		return
	}
	fs.Gate = nil
	sess.Stop(nil)
	if ps := fs.Problems(); len(ps) > 0 {
		w.Violate(ps[0].Kind, "C13:queued:"+ps[0].Kind, fmt.Sprintf("%s: %s", desc, ps[0].Msg), map[string]interface{}{"case": desc})
		return
	}
	for _, p := range fs.FinalCheck() {
		w.Violate(p.Kind, "C13:queued:"+p.Kind+":final", fmt.Sprintf("%s: after Stop: %s", desc, p.Msg), map[string]interface{}{"case": desc})
		return
	}
	w.NT(fmt.Sprintf("queued/%s/%s/%s", name, parkOp, B.n))
}

// authOnBoundFidC13: the file system requires authentication; a Tauth names a fid that is in
// use. It must be refused and the fid it names must stay bound, usable, and be released
// exactly once in the end.
func authOnBoundFidC13(w *mon.W, no int) {
	ctx := context.Background()
	fs := fsx.New()
	fs.AuthRequired = true
	sess := p9p.SFileSys(fs)
	w.Case("C13 auth on a bound fid #%d", no)
	w.Eval()
	w.Count("auth_on_bound_fid_runs", 1)
	sess.Attach(ctx, 1, p9p.NOFID, "u", "")
	sess.Walk(ctx, 1, 2, "d")
	sess.Walk(ctx, 1, 3, "a")
	sess.Open(ctx, 3, p9p.OREAD)
	victim := p9p.Fid(1 + no%3)
	if _, err := sess.Auth(ctx, victim, "u", ""); err == nil {
		w.Violate("mismatch", "C13:auth-on-bound-fid-accepted", fmt.Sprintf("Auth(afid=%d) succeeded although fid %d is bound", victim, victim), nil)
		return
	}
	if no%2 == 0 {
		// a proper auth fid next to it
		sess.Auth(ctx, 9, "u", "")
	}
	if _, err := sess.Stat(ctx, victim); err != nil {
		w.Violate("mismatch", "C13:auth-unbound-a-fid", fmt.Sprintf("after the refused Auth(afid=%d) the fid is no longer usable: Stat fails with %v; its entry was never released", victim, err), nil)
		return
	}
	if no%4 < 2 {
		sess.Clunk(ctx, victim)
	}
	sess.Stop(nil)
	if ps := fs.Problems(); len(ps) > 0 {
		w.Violate(ps[0].Kind, "C13:auth:"+ps[0].Kind, fmt.Sprintf("auth on a bound fid: %s", ps[0].Msg), nil)
		return
	}
	for _, p := range fs.FinalCheck() {
		w.Violate(p.Kind, "C13:auth:"+p.Kind+":final", fmt.Sprintf("after a refused Auth(afid=%d) and Stop: %s", victim, p.Msg), nil)
		return
	}
	w.NT(fmt.Sprintf("auth/%d", no%12))
}

// bindRaceC13: several requests bind the same unused fid at the same instant (spin barrier),
// round after round with a fresh fid. Exactly one may succeed; every entry the file system
// handed out must in the end have been released exactly once.
func bindRaceC13(w *mon.W, no, rounds int) {
	ctx := context.Background()
	fs := fsx.New()
	sess := p9p.SFileSys(fs)
	w.Case("C13 bind race #%d (%d rounds)", no, rounds)
	w.Eval()
	sess.Attach(ctx, 1, p9p.NOFID, "u", "")
	const workers = 6
	var round, arrived int32
	results := make([]error, workers)
	var wg sync.WaitGroup
	for i := 0; i < workers; i++ {
		wg.Add(1)
		go func(i int) {
			defer wg.Done()
			for rd := int32(1); rd <= int32(rounds); rd++ {
				for atomic.LoadInt32(&round) < rd {
					runtime.Gosched()
				}
				if atomic.LoadInt32(&round) > int32(rounds) {
					return
				}
				fid := p9p.Fid(100 + rd)
				var err error
				switch i % 3 {
				case 0:
					_, err = sess.Attach(ctx, fid, p9p.NOFID, "u", "")
				case 1:
					_, err = sess.Walk(ctx, 1, fid, "d")
				default:
					_, err = sess.Walk(ctx, 1, fid)
				}
				results[i] = err
				atomic.AddInt32(&arrived, 1)
			}
		}(i)
	}
	done := 0
	for rd := 1; rd <= rounds; rd++ {
		atomic.StoreInt32(&arrived, 0)
		atomic.StoreInt32(&round, int32(rd))
		for spins := 0; atomic.LoadInt32(&arrived) < workers; spins++ {
			runtime.Gosched()
			if spins > 300000000 {
				atomic.StoreInt32(&round, int32(rounds+1))
				w.Inconclusive("bind race: a round did not complete")
				return
			}
		}
		ok := 0
		for _, e := range results {
			if e == nil {
				ok++
			}
		}
		if ok != 1 {
			atomic.StoreInt32(&round, int32(rounds+1))
			wg.Wait()
			w.Violate("mismatch", "C13:bind-race", fmt.Sprintf("round %d: %d of %d simultaneous requests binding the unused fid %d succeeded", rd, ok, workers, 100+rd), nil)
			return
		}
		if rd%2 == 0 {
			sess.Clunk(ctx, p9p.Fid(100+rd))
		}
		done++
	}
	atomic.StoreInt32(&round, int32(rounds+1))
	wg.Wait()
	w.Count("bind_race_rounds", int64(done))
	sess.Stop(nil)
	if ps := fs.Problems(); len(ps) > 0 {
		w.Violate(ps[0].Kind, "C13:bind-race:"+ps[0].Kind, fmt.Sprintf("bind race: %s", ps[0].Msg), nil)
		return
	}
	for _, p := range fs.FinalCheck() {
		w.Violate(p.Kind, "C13:bind-race:"+p.Kind+":final", fmt.Sprintf("after %d rounds of simultaneous binds and Stop: %s", done, p.Msg), nil)
		return
	}
	w.NT(fmt.Sprintf("bindrace/%d", no))
}

func runC13(w *mon.W) {
	for i := 0; i < w.Scale(48, 2000); i++ {
		if w.Mine(i) {
			authOnBoundFidC13(w, i)
		}
	}
	for i := 0; i < w.NShards; i++ {
		if w.Mine(i) {
			bindRaceC13(w, i, w.Scale(600, 8000))
		}
	}
	// stop reached through ServeConn's shutdown while handlers are still in their FS call (and
	// bind an entry after having been cancelled): the release accounting must hold there too
	idx := 0
	for si, script := range c11Scripts() {
		B, W := c11Record(w, script, si)
		if B == 0 {
			continue
		}
		for _, beh := range []int{c11SucceedAfterCancel, c11ErrOnCancel} {
			for _, f := range []c11fault{{"ctx-cancel", W + 1, beh}, {"read-eof", B, beh}, {"read-error", B - 3, beh}, {"write-fail", W + 1, beh}} {
				for rep := 0; rep < w.Scale(2, 40); rep++ {
					idx++
					if w.Mine(idx) {
						f := f
						c11Run(w, script, si, &f)
						w.Count("served_shutdown_runs", 1)
					}
				}
			}
		}
	}
	for i := 0; i < w.Scale(600, 100000); i++ {
		if w.Mine(i) {
			c13Queued(w, i)
		}
	}
	seqs := w.Scale(500, 60000)
	for i := 0; i < seqs; i++ {
		if !w.Mine(i) {
			continue
		}
		n := 6 + w.Rng.Intn(22)
		ops := genProductive(w.Rng, n)
		seqKey := fmt.Sprintf("%x", mon.Hash(fmt.Sprint(ops)))
		w.Case("C13 base %v", ops)
		base := seqRun(w, ops, seqOpts{prop: "C13", stopAfter: -1, stop: true, desc: "fault-free run"})
		w.Eval()
		countPaths(w, base)
		if base.violated {
			continue
		}
		N := base.fsCalls
		if w.SampleDue(7) {
			var s []string
			for j, o := range ops {
				if j < len(base.labels) && j < 14 {
					s = append(s, o.String()+" => "+base.labels[j])
				}
			}
			w.Sample(map[string]interface{}{"sequence": s, "fs_calls_numbered": N, "handles_bound_at_stop": base.boundAtEnd, "runs_derived": 2*N + len(ops)})
		}
		// every single index, both flavours
		for k := 2; k <= N; k++ {
			for _, fl := range []fsx.Fault{fsx.FaultErr, fsx.FaultNil} {
				plan := map[int]fsx.Fault{k: fl}
				w.Case("C13 fault idx=%d kind=%d seq %v", k, fl, ops)
				r := seqRun(w, ops, seqOpts{prop: "C13", stopAfter: -1, stop: true, plan: plan, desc: fmt.Sprintf("single fault at FS call %d flavour %d", k, fl)})
				w.Eval()
				w.Count("single_fault_runs", 1)
				countPaths(w, r)
				hit := false
				for _, c := range r.fs.LogSince(k - 1) {
					if c.Idx == k && c.Fault != fsx.NoFault {
						hit = true
					}
				}
				if hit {
					w.Count("faults_that_hit", 1)
					if r.boundMax >= 2 {
						w.NT(fmt.Sprintf("%s/f%d/%d", seqKey, k, fl))
					}
				}
			}
		}
		// sampled pairs
		for p := 0; p < N/2+1; p++ {
			a, b := 2+w.Rng.Intn(N), 2+w.Rng.Intn(N)
			if a == b {
				continue
			}
			plan := map[int]fsx.Fault{a: fsx.FaultErr, b: []fsx.Fault{fsx.FaultErr, fsx.FaultNil}[w.Rng.Intn(2)]}
			w.Case("C13 pair %v seq %v", plan, ops)
			r := seqRun(w, ops, seqOpts{prop: "C13", stopAfter: -1, stop: true, plan: plan, desc: fmt.Sprintf("fault pair %v", plan)})
			w.Eval()
			w.Count("pair_fault_runs", 1)
			countPaths(w, r)
			if r.boundMax >= 2 {
				w.NT(fmt.Sprintf("%s/p%d-%d", seqKey, a, b))
			}
		}
		// Stop after every prefix
		for k := 0; k < len(ops); k++ {
			w.Case("C13 stop after %d of %v", k, ops)
			r := seqRun(w, ops, seqOpts{prop: "C13", stopAfter: k, stop: true, desc: fmt.Sprintf("Stop after %d operations", k)})
			w.Eval()
			w.Count("stop_prefix_runs", 1)
			countPaths(w, r)
			if r.boundAtEnd >= 2 {
				w.NT(fmt.Sprintf("%s/s%d", seqKey, k))
			}
		}
	}
}
