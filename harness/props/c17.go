package props

import (
	"bytes"
	"context"
	"errors"
	"fmt"
	"io"
	"strings"
	"sync/atomic"
	"time"

	p9p "github.com/frobnitzem/go-p9p"

	"verifharness/gen"
	"verifharness/mon"
	"verifharness/refcodec"
	"verifharness/wire"
)

// C17: directory reads deliver every entry exactly once, whole and in order.
func init() {
	register(&mon.Spec{
		ID:    "C17",
		Level: "exploration",
		Rule: "listings of n in {0,1,2,3,10,100,1000,rnd} entries with name/uid/gid/muid lengths from {0,1,200,4000,rnd}, delivered by the underlying iterator in batches {1,2,7,all,PRNG}; read-count sequences {exactly max entry, max+1, 2*max-1, PRNG in [max,8*max], huge}; " +
			"wrong-offset probes {0, off-1, off+1, off+count} at every step. Server half: Readdir (NewReaddir/NewReaddir1/NewFixedReaddir) directly and through Session.Open+Read on SFileSys; oracle = concatenation of replies equals the reference encoding of the listing, " +
			"each reply <= count and made of whole entries, empty read at the end (and again), wrong offsets rejected without disturbing the stream; two reads of one open directory arriving together at the running offset are served one after the other (one is refused as stale) and the listing stays complete; two different directories read alternately through the request handler (p9p.SSession) with every Rread kept as handed out and compared only at the end; a raw client that does not clip its counts (msize, 2*msize, 70000, 2^32-1) lists the directory over ServeConn at a small negotiated msize. Client half: CFileSys(CSession) OpenDir iterator over ServeConn(SSession(SFileSys(fs))) with the negotiated msize forced to M " +
			"in {max+11, max+12, 512, 4096, 65536}, including listings with one entry of DefaultMSize-26..DefaultMSize-11 bytes; read buffers are windows of a larger canary-filled arena (nothing beyond len may be touched); oracle = entries returned equal the server's listing. non-trivial = an entry did not fit the remaining buffer (look-ahead) or a batch boundary fell inside a reply; distinct by (n, batch pattern, count pattern, msize)",
		Assumptions: []string{
			"read counts are at least as large as the largest encoded entry (the property's premise); msize-11 >= largest entry on the client half",
			"ServeConn's real 1 s negotiation timeout is the only wall-clock dependency; a handshake that misses it is retried and reported inconclusive, never violated",
		},
		Shards:   shards(8, 16),
		Timeout:  timeouts(12*time.Minute, 90*time.Minute),
		MinEvals: 300,
		Required: []string{"server_direct_listings", "server_session_listings", "client_listings", "lookahead_events", "bad_offset_probes", "final_empty_reads", "transient_iterator_errors", "spare_capacity_reads", "giant_entry_listings", "concurrent_same_offset_reads", "held_dir_reply_rounds", "raw_client_listings"},
		Run:      runC17,
	})
}

// ---- a minimal FileSys serving one directory whose listing is scripted

type listFS struct {
	entries []p9p.Dir
	batches []int // batch sizes; last repeats
	opens   int

	gate    chan struct{} // if set, every iterator call waits here until it is closed
	inIter  int32
	maxIter int32 // largest number of iterator calls in progress at one time
}

type listEnt struct {
	fs   *listFS
	root bool
	sub  bool // the second directory "sub": the same entries with names prefixed "S-"
}

func (f *listFS) RequireAuth(context.Context) bool { return false }
func (f *listFS) Auth(context.Context, string, string) (p9p.AuthFile, error) {
	return nil, errors.New("no auth")
}
func (f *listFS) Attach(context.Context, string, string, p9p.AuthFile) (p9p.Dirent, error) {
	return &listEnt{fs: f, root: true}, nil
}
func (f *listFS) subEntries() []p9p.Dir {
	out := make([]p9p.Dir, len(f.entries))
	for i, d := range f.entries {
		d.Name = "S-" + d.Name
		out[i] = d
	}
	return out
}

func (f *listFS) iterator() p9p.ReadNext { return f.iteratorOf(f.entries) }

func (f *listFS) iteratorOf(entries []p9p.Dir) p9p.ReadNext {
	pos, bi := 0, 0
	return func(context.Context) ([]p9p.Dir, error) {
		if f.gate != nil {
			n := atomic.AddInt32(&f.inIter, 1)
			for {
				m := atomic.LoadInt32(&f.maxIter)
				if n <= m || atomic.CompareAndSwapInt32(&f.maxIter, m, n) {
					break
				}
			}
			<-f.gate
			atomic.AddInt32(&f.inIter, -1)
		}
		if pos >= len(entries) {
			return nil, nil
		}
		k := len(entries)
		if len(f.batches) > 0 {
			k = f.batches[len(f.batches)-1]
			if bi < len(f.batches) {
				k = f.batches[bi]
				bi++
			}
		}
		if k <= 0 || k > len(entries)-pos {
			k = len(entries) - pos
		}
		out := entries[pos : pos+k]
		pos += k
		return out, nil
	}
}
func (e *listEnt) Qid() p9p.Qid { return p9p.Qid{Type: p9p.QTDIR, Path: 1} }
func (e *listEnt) OpenDir(context.Context) (p9p.ReadNext, error) {
	e.fs.opens++
	if e.sub {
		return e.fs.iteratorOf(e.fs.subEntries()), nil
	}
	return e.fs.iterator(), nil
}
func (e *listEnt) Walk(ctx context.Context, names ...string) ([]p9p.Qid, p9p.Dirent, error) {
	if len(names) == 0 {
		return nil, &listEnt{fs: e.fs, root: e.root, sub: e.sub}, nil
	}
	if len(names) == 1 && names[0] == "sub" && !e.sub {
		return []p9p.Qid{{Type: p9p.QTDIR, Path: 2}}, &listEnt{fs: e.fs, sub: true}, nil
	}
	return nil, nil, errors.New("not found")
}
func (e *listEnt) Create(context.Context, string, uint32, p9p.Flag) (p9p.Dirent, p9p.File, error) {
	return nil, nil, errors.New("no create")
}
func (e *listEnt) Open(context.Context, p9p.Flag) (p9p.File, error) {
	return nil, errors.New("is a directory")
}
func (e *listEnt) Remove(context.Context) error          { return nil }
func (e *listEnt) Clunk(context.Context) error           { return nil }
func (e *listEnt) Stat(context.Context) (p9p.Dir, error) { return p9p.Dir{Name: "/"}, nil }
func (e *listEnt) WStat(context.Context, p9p.Dir) error  { return nil }

// ---- workload

type c17case struct {
	entries  []p9p.Dir
	batches  []int
	batchPat string
	ref      []byte
	sizes    []int
	maxEnt   int
}

func genListing(w *mon.W, g *gen.G) *c17case {
	ns := []int{0, 1, 2, 3, 10, 100, 1000}
	n := ns[w.Rng.Intn(len(ns))]
	if w.Rng.Intn(3) == 0 {
		n = w.Rng.Intn(40)
	}
	lens := []int{0, 1, 200, 4000}
	big := w.Rng.Intn(4) == 0
	if n >= 100 && !w.Thorough() {
		big = false
	}
	c := &c17case{}
	for i := 0; i < n; i++ {
		d := g.SmallDir()
		pick := func() string {
			l := w.Rng.Intn(12)
			if big && w.Rng.Intn(3) == 0 {
				l = lens[w.Rng.Intn(len(lens))]
			}
			return g.StrN(l)
		}
		d.Name, d.UID, d.GID, d.MUID = fmt.Sprintf("e%d-", i)+pick(), pick(), pick(), pick()
		c.entries = append(c.entries, d)
		b, _ := refcodec.EncodeStat(d)
		c.ref = append(c.ref, b...)
		c.sizes = append(c.sizes, len(b))
		if len(b) > c.maxEnt {
			c.maxEnt = len(b)
		}
	}
	if c.maxEnt == 0 {
		c.maxEnt = 49
	}
	switch w.Rng.Intn(5) {
	case 0:
		c.batches, c.batchPat = []int{1}, "1"
	case 1:
		c.batches, c.batchPat = []int{2}, "2"
	case 2:
		c.batches, c.batchPat = []int{7}, "7"
	case 3:
		c.batches, c.batchPat = []int{0}, "all"
	default:
		c.batchPat = "prng"
		for i := 0; i < 16; i++ {
			c.batches = append(c.batches, 1+w.Rng.Intn(9))
		}
	}
	return c
}

// giantListing: 1-3 entries, one of which encodes to between DefaultMSize-26 and DefaultMSize-11 bytes.
func giantListing(w *mon.W, g *gen.G) *c17case {
	c := &c17case{batches: []int{1 + w.Rng.Intn(3)}, batchPat: "giant"}
	n := 1 + w.Rng.Intn(3)
	gi := w.Rng.Intn(n)
	target := p9p.DefaultMSize - 11 - w.Rng.Intn(16)
	for i := 0; i < n; i++ {
		d := g.SmallDir()
		d.Name, d.UID, d.GID, d.MUID = fmt.Sprintf("e%d", i), "u", "g", "m"
		if i == gi {
			b, _ := refcodec.EncodeStat(d)
			d.Name += strings.Repeat("x", target-len(b))
		}
		c.entries = append(c.entries, d)
		b, _ := refcodec.EncodeStat(d)
		c.ref = append(c.ref, b...)
		c.sizes = append(c.sizes, len(b))
		if len(b) > c.maxEnt {
			c.maxEnt = len(b)
		}
	}
	return c
}

func countSeq(w *mon.W, maxEnt int) (func() int, string) {
	switch w.Rng.Intn(5) {
	case 0:
		return func() int { return maxEnt }, "max"
	case 1:
		return func() int { return maxEnt + 1 }, "max+1"
	case 2:
		return func() int { return 2*maxEnt - 1 }, "2max-1"
	case 3:
		return func() int { return maxEnt + w.Rng.Intn(7*maxEnt+1) }, "prng"
	}
	return func() int { return 1 << 20 }, "huge"
}

type dirReader interface {
	Read(ctx context.Context, p []byte, offset int64) (int, error)
}

// drain reads the whole directory through rd, checking every reply.
func drainC17(w *mon.W, rd dirReader, c *c17case, via, desc string) {
	ctx := context.Background()
	next, pat := countSeq(w, c.maxEnt)
	var got []byte
	off := int64(0)
	entIdx := 0 // index of the first entry not yet delivered
	lookahead := false
	steps := 0
	transientSeen := 0
	for {
		steps++
		if steps > len(c.entries)+10 {
			w.Violate("mismatch", "C17:no-progress:"+via, fmt.Sprintf("directory read does not terminate after %d reads; %s", steps, desc), nil)
			return
		}
		// wrong-offset probes
		if w.Rng.Intn(3) == 0 {
			probes := []int64{0, off - 1, off + 1, off + int64(c.maxEnt)}
			po := probes[w.Rng.Intn(len(probes))]
			if po != off && po >= 0 {
				buf := make([]byte, c.maxEnt)
				n, err := rd.Read(ctx, buf, po)
				w.Count("bad_offset_probes", 1)
				if err == nil {
					w.Violate("mismatch", "C17:bad-offset-served:"+via, fmt.Sprintf("read at offset %d (running offset %d) was served with %d bytes; %s", po, off, n, desc), nil)
					return
				}
			}
		}
		cnt := next()
		// the buffer handed over is a window of a larger arena: nothing beyond its length may be used
		spare := 0
		if w.Rng.Intn(2) == 0 {
			spare = 1 + w.Rng.Intn(2*c.maxEnt+1)
		}
		arena := make([]byte, cnt+spare)
		for j := cnt; j < len(arena); j++ {
			arena[j] = 0xC7
		}
		buf := arena[:cnt]
		n, err := rd.Read(ctx, buf, off)
		if spare > 0 {
			w.Count("spare_capacity_reads", 1)
			for j := cnt; j < len(arena); j++ {
				if arena[j] != 0xC7 {
					w.Violate("mismatch", "C17:wrote-beyond-buffer:"+via, fmt.Sprintf("read of %d bytes at offset %d wrote beyond the buffer's length (byte %d of an arena of %d); %s", cnt, off, j, len(arena), desc), nil)
					return
				}
			}
		}
		if err != nil && via == "readdir-transient-error" && err == errTransient && transientSeen < 3 {
			// the underlying iterator failed once: whatever whole entries the read
			// delivered count, and the listing continues at the running offset
			transientSeen++
			w.Count("transient_iterator_errors", 1)
			err = nil
			if n == 0 {
				continue
			}
		}
		if err != nil {
			w.Violate("mismatch", "C17:read-error:"+via, fmt.Sprintf("read of %d bytes at running offset %d failed: %v; %s", cnt, off, err, desc), nil)
			return
		}
		if n > cnt {
			w.Violate("mismatch", "C17:reply-too-long:"+via, fmt.Sprintf("reply of %d bytes for count %d; %s", n, cnt, desc), nil)
			return
		}
		if n == 0 {
			break
		}
		// whole entries only
		rest := buf[:n]
		k := 0
		for len(rest) > 0 {
			_, used, derr := refcodec.DecodeStat(rest)
			if derr != nil {
				w.Violate("mismatch", "C17:partial-entry:"+via, fmt.Sprintf("reply at offset %d does not consist of whole entries (%v after %d entries); %s", off, derr, k, desc), nil)
				return
			}
			rest = rest[used:]
			k++
		}
		// did the next entry not fit (look-ahead path)?
		if entIdx+k < len(c.sizes) && n+c.sizes[entIdx+k] > cnt {
			lookahead = true
			w.Count("lookahead_events", 1)
		}
		entIdx += k
		got = append(got, buf[:n]...)
		off += int64(n)
	}
	w.Count("final_empty_reads", 1)
	// stays empty
	if n, err := rd.Read(ctx, make([]byte, c.maxEnt), off); err != nil || n != 0 {
		w.Violate("mismatch", "C17:not-empty-after-end:"+via, fmt.Sprintf("read after the end returned n=%d err=%v; %s", n, err, desc), nil)
	}
	if !bytes.Equal(got, c.ref) {
		w.Violate("mismatch", "C17:listing-bytes:"+via, fmt.Sprintf("concatenated replies (%d bytes) differ from the reference encoding of the listing (%d bytes) at byte %d; counts=%s; %s", len(got), len(c.ref), firstDiff(got, c.ref), pat, desc), nil)
	}
	if lookahead || (c.batchPat != "all" && len(c.entries) > 1) {
		w.NT(fmt.Sprintf("%s/%d/%s/%s/%x", via, len(c.entries), c.batchPat, pat, mon.Hash(string(c.ref))))
	}
}

type sessReader struct {
	s   p9p.Session
	fid p9p.Fid
}

func (r sessReader) Read(ctx context.Context, p []byte, off int64) (int, error) {
	return r.s.Read(ctx, r.fid, p, off)
}

func runC17(w *mon.W) {
	total := w.Scale(2400, 200000)
	g := gen.Small(w.Rng)
	codec := p9p.NewCodec()
	for i := 0; i < total; i++ {
		if !w.Mine(i) {
			continue
		}
		c := genListing(w, g)
		desc := fmt.Sprintf("n=%d batches=%s maxEntry=%d", len(c.entries), c.batchPat, c.maxEnt)
		w.Case("C17 %s", desc)
		w.Eval()
		if w.SampleDue(37) {
			var names []string
			for j, e := range c.entries {
				if j < 4 {
					names = append(names, fmt.Sprintf("%+q", e.Name))
				}
			}
			w.Sample(map[string]interface{}{"entries": len(c.entries), "first_names": names, "batches": c.batchPat, "max_entry_bytes": c.maxEnt, "listing_bytes": len(c.ref)})
		}
		fs := &listFS{entries: c.entries, batches: c.batches}
		switch i % 3 {
		case 0: // Readdir directly, in its three constructors
			var rd *p9p.Readdir
			switch w.Rng.Intn(3) {
			case 0:
				rd = p9p.NewReaddir(codec, fs.iterator())
			case 1:
				rd = p9p.NewFixedReaddir(codec, c.entries)
			default:
				it := fs.iterator()
				var cur []p9p.Dir
				rd = p9p.NewReaddir1(codec, func(ctx context.Context) (p9p.Dir, error) {
					if len(cur) == 0 {
						cur, _ = it(ctx)
						if len(cur) == 0 {
							return p9p.Dir{}, errEOF
						}
					}
					d := cur[0]
					cur = cur[1:]
					return d, nil
				})
			}
			if w.Rng.Intn(4) == 0 && len(c.entries) > 2 {
				// an iterator that fails once, transiently, between two batches
				it := fs.iterator()
				failAt := 1 + w.Rng.Intn(3)
				calls := 0
				rd = p9p.NewReaddir(codec, func(ctx context.Context) ([]p9p.Dir, error) {
					calls++
					if calls == failAt {
						return nil, errTransient
					}
					return it(ctx)
				})
				drainC17(w, rd, c, "readdir-transient-error", desc)
			} else {
				drainC17(w, rd, c, "readdir", desc)
			}
			w.Count("server_direct_listings", 1)
		case 1: // through the server session
			s := p9p.SFileSys(fs)
			ctx := context.Background()
			if _, err := s.Attach(ctx, 1, p9p.NOFID, "u", ""); err != nil {
				w.Inconclusive("attach failed: %v", err)
				continue
			}
			if _, _, err := s.Open(ctx, 1, p9p.OREAD); err != nil {
				w.Violate("mismatch", "C17:open-dir", fmt.Sprintf("Open of the directory failed: %v", err), nil)
				continue
			}
			if len(c.entries) >= 3 && w.Rng.Intn(4) == 0 {
				if !concurrentReadsC17(w, s, fs, c, desc) {
					continue
				}
			}
			if len(c.entries) >= 2 && w.Rng.Intn(4) == 0 {
				heldDirRepliesC17(w, &listFS{entries: c.entries, batches: c.batches}, c, desc)
			}
			if len(c.entries) >= 1 && w.Rng.Intn(4) == 0 {
				rawListC17(w, &listFS{entries: c.entries, batches: c.batches}, c, desc)
			}
			drainC17(w, sessReader{s, 1}, c, "session", desc)
			s.Clunk(ctx, 1)
			w.Count("server_session_listings", 1)
		default:
			if w.Rng.Intn(8) == 0 {
				// one entry whose size is within a few bytes of what a default-msize Rread can carry
				c = giantListing(w, g)
				fs = &listFS{entries: c.entries, batches: c.batches}
				desc = fmt.Sprintf("n=%d batches=%s maxEntry=%d (giant)", len(c.entries), c.batchPat, c.maxEnt)
				w.Case("C17 %s", desc)
				w.Count("giant_entry_listings", 1)
			}
			clientListC17(w, fs, c, desc)
		}
	}
}

// concurrentReadsC17: two reads of the same open directory at the same (running) offset
// arrive together. They must be served one after the other: one gets the first entries, the
// other - its offset now being stale - is refused; the listing read afterwards from the new
// running offset is complete. Returns false if the rest of the case should be skipped.
func concurrentReadsC17(w *mon.W, s p9p.Session, fs *listFS, c *c17case, desc string) bool {
	ctx := context.Background()
	fs.gate = make(chan struct{})
	type res struct {
		n   int
		err error
		buf []byte
	}
	var rs [2]res
	done := make(chan struct{}, 2)
	cnt := 2 * c.maxEnt
	for i := 0; i < 2; i++ {
		go func(i int) {
			buf := make([]byte, cnt)
			n, err := s.Read(ctx, 1, buf, 0)
			rs[i] = res{n, err, buf}
			done <- struct{}{}
		}(i)
	}
	if !settle() {
		close(fs.gate)
		w.Inconclusive("watchdog")
		return false
	}
	w.Count("concurrent_same_offset_reads", 1)
	inside := atomic.LoadInt32(&fs.maxIter)
	close(fs.gate)
	both := make(chan struct{})
	go func() { <-done; <-done; close(both) }()
	if q := mon.AwaitQuiesce(both); !q.Done {
		if q.Hung {
			w.Violate("hang", "C17:concurrent-reads-hang", fmt.Sprintf("two concurrent reads of one open directory did not both return; blocked at %s; %s", q.Sites, desc), nil)
		}
		return false
	}
	fs.gate = nil
	if inside > 1 {
		w.Violate("mismatch", "C17:concurrent-reads-overlap", fmt.Sprintf("%d reads of the same open directory were inside its iterator at the same time; %s", inside, desc), nil)
		return false
	}
	served := -1
	for i, r := range rs {
		if r.err == nil && r.n > 0 {
			if served >= 0 {
				w.Violate("mismatch", "C17:bad-offset-served:concurrent", fmt.Sprintf("two reads at offset 0 were both served (%d and %d bytes): the second one's offset was stale; %s", rs[served].n, r.n, desc), nil)
				return false
			}
			served = i
		}
	}
	if served < 0 {
		w.Violate("mismatch", "C17:read-error:concurrent", fmt.Sprintf("neither of two concurrent reads at offset 0 was served: %v / %v; %s", rs[0].err, rs[1].err, desc), nil)
		return false
	}
	// the rest of the listing, sequentially
	got := append([]byte{}, rs[served].buf[:rs[served].n]...)
	off := int64(len(got))
	for steps := 0; steps < len(c.entries)+5; steps++ {
		buf := make([]byte, cnt)
		n, err := s.Read(ctx, 1, buf, off)
		if err != nil {
			w.Violate("mismatch", "C17:read-error:concurrent", fmt.Sprintf("read at the running offset %d after two concurrent reads failed: %v; %s", off, err, desc), nil)
			return false
		}
		if n == 0 {
			break
		}
		got = append(got, buf[:n]...)
		off += int64(n)
	}
	if !bytes.Equal(got, c.ref) {
		w.Violate("mismatch", "C17:listing-bytes:concurrent", fmt.Sprintf("after two concurrent reads the listing (%d bytes) differs from the reference encoding (%d bytes) at byte %d; %s", len(got), len(c.ref), firstDiff(got, c.ref), desc), nil)
	}
	s.Clunk(ctx, 1)
	w.Count("server_session_listings", 1)
	return false
}

// heldDirRepliesC17: two different open directories are read through the server's request
// handler (p9p.SSession); each Rread is kept as handed out until the other directory has
// been read as well, and must then still hold whole entries of its own directory.
func heldDirRepliesC17(w *mon.W, fs *listFS, c *c17case, desc string) {
	ctx := context.Background()
	s := p9p.SFileSys(fs)
	h := p9p.SSession(s)
	if _, err := s.Attach(ctx, 1, p9p.NOFID, "u", ""); err != nil {
		return
	}
	if qs, err := s.Walk(ctx, 1, 2, "sub"); err != nil || len(qs) != 1 {
		w.Inconclusive("walk to sub: %v", err)
		return
	}
	s.Open(ctx, 1, p9p.OREAD)
	s.Open(ctx, 2, p9p.OREAD)
	var subRef []byte
	for _, d := range fs.subEntries() {
		b, _ := refcodec.EncodeStat(d)
		subRef = append(subRef, b...)
	}
	w.Count("held_dir_reply_rounds", 1)
	type held struct {
		fid  p9p.Fid
		off  int
		data []byte
	}
	var hs []held
	offs := map[p9p.Fid]int{1: 0, 2: 0}
	for k := 0; k < 2*len(c.entries)+4; k++ {
		fid := p9p.Fid(1 + k%2)
		cnt := c.maxEnt + 2 + w.Rng.Intn(2*c.maxEnt+1) // "S-" makes sub entries two bytes longer
		m, err := h.Handle(ctx, p9p.MessageTread{Fid: fid, Offset: uint64(offs[fid]), Count: uint32(cnt)})
		if err != nil {
			w.Violate("mismatch", "C17:read-error:handler", fmt.Sprintf("Tread on directory fid %d at its running offset %d failed: %v; %s", fid, offs[fid], err, desc), nil)
			return
		}
		rr, _ := m.(p9p.MessageRread)
		hs = append(hs, held{fid, offs[fid], rr.Data}) // not copied
		offs[fid] += len(rr.Data)
	}
	for _, x := range hs {
		ref := c.ref
		if x.fid == 2 {
			ref = subRef
		}
		if x.off+len(x.data) > len(ref) || !bytes.Equal(x.data, ref[x.off:x.off+len(x.data)]) {
			w.Violate("mismatch", "C17:reply-changed-after-handler-returned", fmt.Sprintf("the Rread returned for directory fid %d at offset %d (%d bytes) no longer carries that directory's entries once the other directory has been read; %s", x.fid, x.off, len(x.data), desc), nil)
			return
		}
	}
	if offs[1] != len(c.ref) || offs[2] != len(subRef) {
		w.Violate("mismatch", "C17:listing-bytes:handler", fmt.Sprintf("listings read through the handler are incomplete: %d of %d and %d of %d bytes; %s", offs[1], len(c.ref), offs[2], len(subRef), desc), nil)
	}
	s.Stop(nil)
}

// rawListC17: a raw 9P client that does not clip its own read counts lists the directory
// over a served connection with a small negotiated msize, asking for far more than a reply
// can carry. Every reply must fit msize, hold whole entries, and the listing must arrive.
func rawListC17(w *mon.W, fs *listFS, c *c17case, desc string) {
	M := c.maxEnt + 11 + w.Rng.Intn(300)
	if M < 256 {
		M = 256
	}
	if M > 65536 || c.maxEnt+11 > M {
		return
	}
	h, err := newSrvH(p9p.SSession(p9p.SFileSys(fs)), uint32(M), 1<<20)
	if err != nil {
		h.close()
		w.Inconclusive("handshake: %v", err)
		return
	}
	defer h.close()
	w.Count("raw_client_listings", 1)
	d2 := fmt.Sprintf("%s raw client, msize=%d", desc, h.msize)
	ask := func(fc *p9p.Fcall) *p9p.Fcall {
		h.send(fc)
		if !settle() {
			return nil
		}
		rs := h.take()
		for retry := 0; retry < 3 && len(rs) == 0 && !h.served(); retry++ {
			// judged only on a second look: two quiet snapshots in a row with nothing received
			if q := mon.AwaitQuiesce(h.serveDone); q.Inconclusive {
				return nil
			}
			rs = h.take()
		}
		if len(rs) != 1 {
			w.Violate("mismatch", "C17:raw-no-reply", fmt.Sprintf("%s got %d replies (connection served=%v, err=%v); %s", refcodec.Describe(fc), len(rs), h.served(), h.serveErr, d2), nil)
			return nil
		}
		return rs[0]
	}
	if r := ask(&p9p.Fcall{Type: p9p.Tattach, Tag: 1, Message: p9p.MessageTattach{Fid: 1, Afid: p9p.NOFID, Uname: "u"}}); r == nil || r.Type != p9p.Rattach {
		return
	}
	if r := ask(&p9p.Fcall{Type: p9p.Topen, Tag: 1, Message: p9p.MessageTopen{Fid: 1, Mode: p9p.OREAD}}); r == nil || r.Type != p9p.Ropen {
		return
	}
	var got []byte
	for steps := 0; steps < len(c.entries)+5; steps++ {
		cnt := []uint32{uint32(h.msize), uint32(2 * h.msize), 1<<32 - 1, uint32(h.msize - 10), 70000}[w.Rng.Intn(5)]
		r := ask(&p9p.Fcall{Type: p9p.Tread, Tag: 2, Message: p9p.MessageTread{Fid: 1, Offset: uint64(len(got)), Count: cnt}})
		if r == nil {
			return
		}
		rr, ok := r.Message.(p9p.MessageRread)
		if !ok {
			w.Violate("mismatch", "C17:read-error:raw", fmt.Sprintf("Tread(count=%d) at the running offset %d answered with %s; %s", cnt, len(got), refcodec.Describe(r), d2), nil)
			return
		}
		if len(rr.Data)+11 > h.msize {
			w.Violate("mismatch", "C17:reply-too-long:raw", fmt.Sprintf("Rread of %d bytes exceeds what msize %d can carry; %s", len(rr.Data), h.msize, d2), nil)
			return
		}
		if len(rr.Data) == 0 {
			break
		}
		rest := rr.Data
		for len(rest) > 0 {
			_, used, derr := refcodec.DecodeStat(rest)
			if derr != nil {
				w.Violate("mismatch", "C17:partial-entry:raw", fmt.Sprintf("reply at offset %d does not consist of whole entries: %v; %s", len(got), derr, d2), nil)
				return
			}
			rest = rest[used:]
		}
		got = append(got, rr.Data...)
	}
	if !bytes.Equal(got, c.ref) {
		w.Violate("mismatch", "C17:listing-bytes:raw", fmt.Sprintf("listing read by the raw client (%d bytes) differs from the reference encoding (%d bytes) at byte %d; %s", len(got), len(c.ref), firstDiff(got, c.ref), d2), nil)
	}
}

var errEOF = io.EOF
var errTransient = errors.New("transient iterator failure")

// clientListC17 lists the directory through CFileSys(CSession) over a served connection
// whose negotiated msize is forced to M.
func clientListC17(w *mon.W, fs *listFS, c *c17case, desc string) {
	ms := []int{c.maxEnt + 11, c.maxEnt + 12, 512, 4096, 65536}
	M := ms[w.Rng.Intn(len(ms))]
	if M < c.maxEnt+11 {
		M = c.maxEnt + 11
	}
	if M < 64 {
		M = 64
	}
	if M > 65536 {
		return // an entry this large cannot be carried by any negotiable msize: outside the premise
	}
	for attempt := 0; attempt < 3; attempt++ {
		ctx, cancel := context.WithCancel(context.Background())
		cend, send := wire.BPipe(1 << 16)
		srvDone := make(chan error, 1)
		go func() {
			err := p9p.ServeConn(ctx, send, p9p.SSession(p9p.SFileSys(fs)))
			send.Close() // a handshake that missed ServeConn's real 1 s timeout must not leave the client waiting
			srvDone <- err
		}()
		tap := wire.NewTap(cend)
		tap.RewriteMsize = uint32(M)
		tap.Keep = false
		sess, err := p9p.CSession(ctx, tap)
		if err != nil {
			cancel()
			cend.Close()
			<-srvDone
			if strings.Contains(err.Error(), "deadline") || attempt < 2 {
				continue
			}
			w.Inconclusive("CSession failed: %v", err)
			return
		}
		msize, _ := sess.Version()
		if msize != M {
			w.Note("negotiated msize %d, wanted %d", msize, M)
		}
		cfs := p9p.CFileSys(sess)
		var got []p9p.Dir
		var lerr error
		func() {
			root, err := cfs.Attach(ctx, "u", "", nil)
			if err != nil {
				lerr = fmt.Errorf("attach: %v", err)
				return
			}
			next, err := root.OpenDir(ctx)
			if err != nil {
				lerr = fmt.Errorf("opendir: %v", err)
				return
			}
			for rounds := 0; ; rounds++ {
				ds, err := next(ctx)
				if err != nil {
					lerr = fmt.Errorf("next: %v", err)
					return
				}
				if len(ds) == 0 {
					break
				}
				got = append(got, ds...)
				if rounds > len(c.entries)+5 {
					lerr = errors.New("iterator does not terminate")
					return
				}
			}
			root.Clunk(ctx)
		}()
		cancel()
		cend.Close()
		<-srvDone
		w.Count("client_listings", 1)
		in, out := tap.Max()
		if in > M || out > M {
			w.Note("frame longer than negotiated msize seen on the client tap: in=%d out=%d M=%d (judged by C10)", in, out, M)
		}
		d2 := fmt.Sprintf("%s msize=%d", desc, M)
		if lerr != nil {
			w.Violate("mismatch", "C17:client-error", fmt.Sprintf("listing through the client layer failed: %v; %s", lerr, d2), nil)
			return
		}
		if len(got) != len(c.entries) {
			w.Violate("mismatch", "C17:client-count", fmt.Sprintf("client obtained %d entries, the server lists %d; %s", len(got), len(c.entries), d2), nil)
			return
		}
		for i := range got {
			if !refcodec.EqDir(got[i], c.entries[i]) {
				w.Violate("mismatch", "C17:client-entry", fmt.Sprintf("entry %d differs: got %v want %v; %s", i, got[i], c.entries[i], d2), nil)
				return
			}
		}
		if len(c.ref) > M-11 {
			w.NT(fmt.Sprintf("client/%d/%s/%d/%x", len(c.entries), c.batchPat, M, mon.Hash(string(c.ref))))
			w.Count("lookahead_events", 1)
		}
		return
	}
}
