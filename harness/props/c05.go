package props

import (
	"context"
	"fmt"
	"runtime"
	"strings"
	"sync"
	"sync/atomic"
	"time"

	p9p "github.com/frobnitzem/go-p9p"

	"verifharness/mon"
)

// C05: client hands every reply to exactly the call that issued the request.
func init() {
	register(&mon.Spec{
		ID:    "C05",
		Level: "exploration",
		Rule: "a real p9p.CSession client in front of a scripted fake server (raw wire, reference codec). (a) Rounds on one session: N in {1..64} concurrent callers of mixed kinds (Read, Stat, Walk, Open, Attach, Write, Create), every call and every reply carrying a unique id; the server collects the requests, " +
			"answers them in a PRNG permutation in several batches with new callers arriving in between, some replies are Rerror, some callers abandon their call (context cancelled) before the reply and are answered late — in the same or a later round. (b) Tag wrap: one session, >= 70 000 calls from 8 pipelining callers answered at once, " +
			"while L in {1,17,200} long-outstanding (some abandoned) calls pin tags spread over the tag space; thorough repeats with 200 000 calls. (c) Depletion: 65535 calls are abandoned as their requests arrive and never answered, so that every tag is outstanding; one more call must fail without putting a request on the wire; after the replies are sent a new call succeeds. (d) calls issued with an already ended context while others are pending. (e) Idle wrap (run once with ordinary replies and once with every request answered by an Rerror): 66 100 strictly sequential calls (nothing outstanding when the counter passes 0xFFFE), and the call that receives tag 0 after the wrap held back while the connection's read side reports temporary timeouts (nothing lost) - it must neither return nor be disturbed. Online monitor: a request's tag is never NOTAG and never equal to a tag still awaiting its reply on the server side (including abandoned calls); each call returns the result carrying its own id (or the error text of its Rerror); " +
			"at quiescence every call whose reply was sent has returned; the wrap 0xFFFE->0 must be observed in (b). Go race detector on transport.go / csession.go / channel.go. non-trivial = >= 2 outstanding tags and >= 1 reply out of request order; distinct by hash of (arrival order, reply order)",
		Assumptions: []string{
			"the fake server is the judge of 'awaiting a reply': a tag is outstanding from the moment its request is parsed until the script sends its reply",
			"quiescence from goroutine states, no clocks",
		},
		Race:      true,
		RaceFiles: []string{"transport.go", "csession.go", "channel.go"},
		Shards:    shards(8, 16),
		Timeout:   timeouts(12*time.Minute, 90*time.Minute),
		MinEvals:  50,
		Required:  []string{"rounds", "replies_out_of_order", "abandoned_then_answered_late", "error_replies", "wrap_runs", "tag_wraps_observed", "pinned_tags_skipped_checks", "calls_returned_own_uid", "abandoned_during_write", "pin_bursts_below_notag", "dead_context_calls_among_pending", "depletion_runs", "depleted_call_refused", "idle_wrap_runs", "idle_wrap_runs_error_replies", "read_hiccups_with_tag0_outstanding"},
		Run:       runC05,
	})
}

type c05call struct {
	uid     int
	kind    callKind
	ctx     context.Context
	cancel  context.CancelFunc
	res     callRes
	done    bool
	req     *p9p.Fcall
	abandon bool
	wantErr string
}

func runC05(w *mon.W) {
	sessions := w.Scale(80, 3000)
	for i := 0; i < sessions; i++ {
		if !w.Mine(i) {
			continue
		}
		runC05Rounds(w, i)
	}
	for i := 0; i < w.Scale(24, 600); i++ {
		if w.Mine(i) {
			runC05AbandonedWrite(w, i)
		}
	}
	for i := 0; i < w.Scale(1, 2)*w.NShards; i++ {
		// quick: one shard; thorough: two
		if w.Mine(i) && i >= 3 && i < 3+w.Scale(1, 2) {
			runC05Depletion(w, i)
		}
	}
	for i := 0; i < w.Scale(1, 2)*w.NShards; i++ {
		// an idle wrap: strictly sequential calls, nothing outstanding when the tag counter wraps
		if w.Mine(i) && i >= 4 && i < 4+w.Scale(1, 2) {
			runC05IdleWrap(w, i, false)
		}
		// the same with every request answered by an error reply
		if w.Mine(i) && i >= 6 && i < 6+w.Scale(1, 2) {
			runC05IdleWrap(w, i, true)
		}
	}
	wraps := w.Scale(1, 5)
	for i := 0; i < wraps*w.NShards; i++ {
		if !w.Mine(i) {
			continue
		}
		// quick: only three shards run a wrap (L = 1, 17, 200); thorough: all
		if !w.Thorough() && i >= 3 {
			continue
		}
		L := []int{1, 17, 200}[i%3]
		total := w.Scale(70000, 200000)
		if L == 1 {
			total = 210000 // three passes over the tag space: the run pinned just below NOTAG is met twice
		}
		runC05Wrap(w, i, L, total)
	}
}

func runC05Rounds(w *mon.W, no int) {
	h := newCliH(0, 1<<20)
	defer h.close()
	w.Case("C05 session #%d", no)
	if err := h.dial(); err != nil {
		w.Inconclusive("dial: %v", err)
		return
	}
	var mu sync.Mutex
	uid := 0
	outstanding := map[p9p.Tag]*c05call{} // server side: seen and not yet answered
	var late []*c05call                   // abandoned, still unanswered
	var trace []string
	bad := func(sig, format string, a ...interface{}) {
		w.Violate("mismatch", "C05:"+sig, fmt.Sprintf(format, a...)+fmt.Sprintf("; session #%d trace=[%s]", no, strings.Join(trace, "; ")), map[string]interface{}{"trace": trace})
	}
	launch := func(n int) []*c05call {
		var cs []*c05call
		for i := 0; i < n; i++ {
			uid++
			c := &c05call{uid: uid, kind: callKind(w.Rng.Intn(int(nCallKinds)))}
			c.ctx, c.cancel = context.WithCancel(context.Background())
			cs = append(cs, c)
			go func(c *c05call) {
				r := doCall(c.ctx, h.sess, c.kind, c.uid)
				mu.Lock()
				c.res, c.done = r, true
				mu.Unlock()
			}(c)
		}
		return cs
	}
	// absorb: after a settle, attribute the newly arrived requests to calls and run the tag monitor
	absorb := func(cs []*c05call) bool {
		reqs := h.take()
		byUID := map[int]*c05call{}
		for _, c := range cs {
			byUID[c.uid] = c
		}
		if len(reqs) != len(cs) {
			bad("request-count", "%d calls issued, %d requests arrived", len(cs), len(reqs))
			return false
		}
		for _, rq := range reqs {
			c := byUID[uidOfRequest(rq)]
			if c == nil || c.req != nil {
				bad("unknown-request", "request %v does not belong to a call just issued", rq)
				return false
			}
			if rq.Tag == p9p.NOTAG {
				bad("notag-used", "request of call uid=%d uses the reserved NOTAG", c.uid)
				return false
			}
			if o := outstanding[rq.Tag]; o != nil {
				bad("tag-reused-while-outstanding", "call uid=%d was sent with tag %d, which still awaits the reply of call uid=%d (abandoned=%v)", c.uid, rq.Tag, o.uid, o.abandon)
				return false
			}
			c.req = rq
			outstanding[rq.Tag] = c
			w.Max("max_outstanding_tags", int64(len(outstanding)))
		}
		return true
	}
	answer := func(c *c05call) {
		delete(outstanding, c.req.Tag)
		if !c.abandon && w.Rng.Intn(6) == 0 {
			c.wantErr = fmt.Sprintf("err-%d", c.uid)
			h.reply(&p9p.Fcall{Type: p9p.Rerror, Tag: c.req.Tag, Message: p9p.MessageRerror{Ename: c.wantErr}})
			w.Count("error_replies", 1)
		} else {
			h.reply(replyFor(c.req, c.uid))
		}
		trace = append(trace, fmt.Sprintf("reply tag=%d uid=%d", c.req.Tag, c.uid))
	}
	verify := func(cs []*c05call) bool {
		mu.Lock()
		defer mu.Unlock()
		for _, c := range cs {
			if !c.done {
				bad("call-did-not-return", "call uid=%d (tag %d) has not returned although its reply was sent and the process is quiescent", c.uid, c.req.Tag)
				return false
			}
			switch {
			case c.abandon:
				if c.res.err == nil {
					// the reply may legitimately have won the race against the cancellation
					if c.res.uid != c.uid {
						bad("crossed-reply", "abandoned call uid=%d returned the result of uid=%d", c.uid, c.res.uid)
						return false
					}
				}
			case c.wantErr != "":
				re, ok := c.res.err.(p9p.MessageRerror)
				if !ok || re.Ename != c.wantErr {
					bad("error-reply-not-surfaced", "call uid=%d was answered with Rerror %q but returned err=%v uid=%d", c.uid, c.wantErr, c.res.err, c.res.uid)
					return false
				}
			default:
				if c.res.err != nil || c.res.uid != c.uid {
					bad("crossed-reply", "call uid=%d (tag %d) returned uid=%d err=%v (%s)", c.uid, c.req.Tag, c.res.uid, c.res.err, c.res.desc)
					return false
				}
				w.Count("calls_returned_own_uid", 1)
			}
		}
		return true
	}

	rounds := 2 + w.Rng.Intn(5)
	nontrivial := false
	for r := 0; r < rounds; r++ {
		w.Eval()
		w.Count("rounds", 1)
		n := []int{1, 2, 3, 5, 8, 16, 33, 64}[w.Rng.Intn(8)]
		cs := launch(n)
		trace = append(trace, fmt.Sprintf("round %d: %d callers", r, n))
		if !settle() {
			w.Inconclusive("watchdog")
			return
		}
		if !absorb(cs) {
			return
		}
		// calls whose context has already ended when they are issued, while the others are pending:
		// they fail locally and must not disturb anybody
		if w.Rng.Intn(2) == 0 {
			k := 1 + w.Rng.Intn(3)
			var pre []*c05call
			for i := 0; i < k; i++ {
				uid++
				c := &c05call{uid: uid, kind: callKind(w.Rng.Intn(int(nCallKinds))), abandon: true}
				c.ctx, c.cancel = context.WithCancel(context.Background())
				c.cancel()
				pre = append(pre, c)
				c.res, c.done = doCall(c.ctx, h.sess, c.kind, c.uid), true
				if c.res.err == nil {
					bad("dead-context-call-succeeded", "call uid=%d issued with an already cancelled context returned success", c.uid)
					return
				}
			}
			w.Count("dead_context_calls_among_pending", int64(k))
			trace = append(trace, fmt.Sprintf("%d call(s) with an already cancelled context", k))
			if !settle() {
				w.Inconclusive("watchdog")
				return
			}
			// should one of them have reached the wire all the same, its tag counts as outstanding
			byUID := map[int]*c05call{}
			for _, c := range pre {
				byUID[c.uid] = c
			}
			for _, rq := range h.take() {
				c := byUID[uidOfRequest(rq)]
				if c == nil || c.req != nil {
					bad("unknown-request", "request %v does not belong to a call just issued", rq)
					return
				}
				if o := outstanding[rq.Tag]; o != nil || rq.Tag == p9p.NOTAG {
					bad("tag-reused-while-outstanding", "call uid=%d (dead context) was sent with tag %d, which is reserved or still awaits a reply", c.uid, rq.Tag)
					return
				}
				c.req = rq
				outstanding[rq.Tag] = c
				late = append(late, c)
			}
		}
		// abandon some
		var live []*c05call
		for _, c := range cs {
			if w.Rng.Intn(7) == 0 {
				c.abandon = true
				c.cancel()
				trace = append(trace, fmt.Sprintf("abandon uid=%d tag=%d", c.uid, c.req.Tag))
			} else {
				live = append(live, c)
			}
		}
		if !settle() {
			w.Inconclusive("watchdog")
			return
		}
		mu.Lock()
		for _, c := range cs {
			if c.abandon && !c.done {
				mu.Unlock()
				bad("cancel-did-not-return", "call uid=%d did not return after its context was cancelled", c.uid)
				return
			}
		}
		mu.Unlock()
		for _, c := range cs {
			if c.abandon {
				if w.Rng.Intn(2) == 0 {
					late = append(late, c) // answered in a later round
				} else {
					live = append(live, c) // answered late in this round
				}
			}
		}
		// answer in a PRNG permutation, in batches, with new arrivals in between
		w.Rng.Shuffle(len(live), func(i, j int) { live[i], live[j] = live[j], live[i] })
		inv := 0
		for i := 1; i < len(live); i++ {
			if live[i].uid < live[i-1].uid {
				inv++
			}
		}
		if inv > 0 {
			w.Count("replies_out_of_order", int64(inv))
			nontrivial = true
		}
		var answered []*c05call
		for len(live) > 0 {
			k := 1 + w.Rng.Intn(len(live))
			for _, c := range live[:k] {
				if c.abandon {
					w.Count("abandoned_then_answered_late", 1)
				}
				answer(c)
				answered = append(answered, c)
			}
			live = live[k:]
			// answer some abandoned calls of earlier rounds now
			if len(late) > 0 && w.Rng.Intn(2) == 0 {
				c := late[0]
				late = late[1:]
				w.Count("abandoned_then_answered_late", 1)
				answer(c)
			}
			if len(live) > 0 && w.Rng.Intn(2) == 0 {
				more := launch(1 + w.Rng.Intn(4))
				if !settle() {
					w.Inconclusive("watchdog")
					return
				}
				if !absorb(more) {
					return
				}
				live = append(live, more...)
				cs = append(cs, more...)
			}
		}
		if !settle() {
			w.Inconclusive("watchdog")
			return
		}
		if !verify(answered) {
			return
		}
		if p := h.problems(); p != "" {
			bad("client-sent-garbage", "%s", p)
			return
		}
	}
	if nontrivial {
		w.NT(strings.Join(trace, ";"))
	}
	if w.SampleDue(17) {
		t := trace
		if len(t) > 24 {
			t = t[:24]
		}
		w.Sample(map[string]interface{}{"session": no, "rounds": rounds, "trace_head": t})
	}
}

// runC05Wrap drives the tag allocator around the 16-bit space while L calls pin tags.
func runC05Wrap(w *mon.W, no, L, total int) {
	h := newCliH(0, 1<<20)
	defer h.close()
	w.Case("C05 wrap run #%d L=%d total=%d", no, L, total)
	if err := h.dial(); err != nil {
		w.Inconclusive("dial: %v", err)
		return
	}
	w.Eval()
	w.Count("wrap_runs", 1)
	var mu sync.Mutex
	var tearingDown int32
	pinned := map[p9p.Tag]*p9p.Fcall{} // held requests
	inflight := map[p9p.Tag]int{}
	pinUIDs := map[int]bool{}
	abandonOnArrival := map[int]context.CancelFunc{}
	burstNow := make(chan struct{}, 1)
	burstAsked := false
	var gate sync.RWMutex // workers hold it shared around each call; the burst takes it exclusively
	var lastTag = -1
	wraps := 0
	seen := 0
	violated := false
	h.mu.Lock()
	h.onReq = func(fc *p9p.Fcall) {
		mu.Lock()
		defer mu.Unlock()
		seen++
		u := uidOfRequest(fc)
		if fc.Tag == p9p.NOTAG {
			violated = true
			w.Violate("mismatch", "C05:notag-used", fmt.Sprintf("request #%d (uid %d) uses NOTAG", seen, u), nil)
		}
		if old, ok := pinned[fc.Tag]; ok {
			violated = true
			w.Violate("mismatch", "C05:tag-reused-while-outstanding", fmt.Sprintf("request #%d (uid %d) reuses tag %d which still awaits the reply of the long-outstanding call uid=%d", seen, u, fc.Tag, uidOfRequest(old)), nil)
		}
		if _, ok := inflight[fc.Tag]; ok {
			violated = true
			w.Violate("mismatch", "C05:tag-reused-while-outstanding", fmt.Sprintf("request #%d (uid %d) reuses in-flight tag %d", seen, u, fc.Tag), nil)
		}
		if int(fc.Tag) < lastTag {
			wraps++
		}
		lastTag = int(fc.Tag)
		if fc.Tag == 0xFFF4 && !burstAsked {
			burstAsked = true
			select {
			case burstNow <- struct{}{}:
			default:
			}
		}
		if pinUIDs[u] {
			pinned[fc.Tag] = fc
			if cancel := abandonOnArrival[u]; cancel != nil {
				cancel() // the caller abandons this call now; its tag stays outstanding until the very end
			}
			return
		}
		// answered at once: the tag is free again as soon as the reply is written
		h.reply(replyFor(fc, u))
	}
	h.mu.Unlock()

	// pinned calls spread over the tag space: issue them at intervals of total/L ordinary calls
	var pins []*c05call
	var pmu sync.Mutex
	uidBase := 1000000
	issuePin := func(i int) {
		c := &c05call{uid: uidBase + i, kind: ckStat}
		c.ctx, c.cancel = context.WithCancel(context.Background())
		mu.Lock()
		pinUIDs[c.uid] = true
		if i%2 == 1 {
			c.abandon = true
			abandonOnArrival[c.uid] = c.cancel
		}
		mu.Unlock()
		pmu.Lock()
		pins = append(pins, c)
		pmu.Unlock()
		go func() {
			r := doCall(c.ctx, h.sess, c.kind, c.uid)
			pmu.Lock()
			c.res, c.done = r, true
			pmu.Unlock()
		}()
	}
	const workers = 8
	per := total / workers
	pinEvery := per / (L/workers + 1)
	if pinEvery < 1 {
		pinEvery = 1
	}
	var wg sync.WaitGroup
	var pinCount int32
	var pcmu sync.Mutex
	for k := 0; k < workers; k++ {
		wg.Add(1)
		go func(k int) {
			defer wg.Done()
			ctx := context.Background()
			for i := 0; i < per; i++ {
				if i%pinEvery == 0 {
					pcmu.Lock()
					if int(pinCount) < L {
						issuePin(int(pinCount))
						pinCount++
					}
					pcmu.Unlock()
				}
				uid := k*per + i + 1
				kind := callKind((uid) % int(nCallKinds))
				gate.RLock()
				r := doCall(ctx, h.sess, kind, uid)
				gate.RUnlock()
				if r.err != nil || r.uid != uid {
					if atomic.LoadInt32(&tearingDown) == 0 {
						w.Violate("mismatch", "C05:crossed-reply", fmt.Sprintf("wrap run: call uid=%d returned uid=%d err=%v", uid, r.uid, r.err), nil)
					}
					return
				}
			}
		}(k)
	}
	// a run of long-outstanding calls on consecutive tags ending just below NOTAG (and
	// continuing at 0, 1): issued with the workers paused so that the tags are adjacent
	go func() {
		<-burstNow
		gate.Lock()
		mu.Lock()
		before := len(pinned)
		mu.Unlock()
		const burst = 14
		for i := 0; i < burst; i++ {
			issuePin(5000 + i)
		}
		for k := 0; k < 5000000; k++ {
			mu.Lock()
			n := len(pinned)
			mu.Unlock()
			if n >= before+burst {
				break
			}
			runtime.Gosched()
		}
		gate.Unlock()
		w.Count("pin_bursts_below_notag", 1)
	}()
	done := make(chan struct{})
	go func() { wg.Wait(); close(done) }()
	q := mon.AwaitQuiesceLong(done, 25*time.Minute)
	if !q.Done {
		atomic.StoreInt32(&tearingDown, 1) // the deferred close must not be mistaken for a misdelivery
	}
	if q.Hung {
		w.Violate("hang", "C05:hang:"+q.Sites, fmt.Sprintf("wrap run L=%d: callers have not returned although the process is quiescent; blocked at %s", L, q.Sites), map[string]interface{}{"goroutines": mon.TrimDump(q.Dump, 6000)})
		return
	}
	if q.Inconclusive {
		w.Inconclusive("watchdog in wrap run")
		return
	}
	// abandon half of the pinned calls, then answer all pinned requests: each live one gets its own uid
	if !settle() {
		return
	}
	pmu.Lock()
	ps := append([]*c05call{}, pins...)
	pmu.Unlock()
	mu.Lock()
	held := make([]*p9p.Fcall, 0, len(pinned))
	for _, fc := range pinned {
		held = append(held, fc)
	}
	nPinned := len(pinned)
	pinned = map[p9p.Tag]*p9p.Fcall{}
	mu.Unlock()
	for _, fc := range held {
		h.reply(replyFor(fc, uidOfRequest(fc)))
	}
	settle()
	pmu.Lock()
	for _, c := range ps {
		if !c.done {
			w.Violate("hang", "C05:call-did-not-return", fmt.Sprintf("long-outstanding call uid=%d did not return after its reply was sent", c.uid), nil)
			break
		}
		if !c.abandon && (c.res.err != nil || c.res.uid != c.uid) {
			w.Violate("mismatch", "C05:crossed-reply", fmt.Sprintf("long-outstanding call uid=%d returned uid=%d err=%v", c.uid, c.res.uid, c.res.err), nil)
			break
		}
	}
	pmu.Unlock()
	mu.Lock()
	w.Count("tag_wraps_observed", int64(wraps))
	w.Count("pinned_tags_skipped_checks", int64(seen))
	w.Count("wrap_requests", int64(seen))
	w.Max("max_pinned_tags", int64(nPinned))
	if wraps == 0 && !violated {
		w.Inconclusive("wrap run L=%d saw no tag wrap in %d requests", L, seen)
	}
	if !violated {
		w.NT(fmt.Sprintf("wrap/%d/%d/%d", L, total, no))
	}
	mu.Unlock()
	w.Sample(map[string]interface{}{"wrap_run": no, "long_outstanding_calls": L, "requests": seen, "tag_wraps": wraps, "pinned_tags_at_end": nPinned})
}

// runC05AbandonedWrite: a caller abandons its call while the transport is still writing
// the request, and the write then fails. The caller has long returned; every other call on
// the session must still return exactly once with its own reply.
func runC05AbandonedWrite(w *mon.W, no int) {
	h := newCliH(0, 1<<20)
	defer h.close()
	w.Case("C05 abandoned-during-write #%d", no)
	if err := h.dial(); err != nil {
		w.Inconclusive("dial: %v", err)
		return
	}
	w.Eval()
	w.Count("abandoned_during_write", 1)
	_, w0 := h.fault.Counts()
	h.fault.WriteFailAt = w0 + 1
	h.fault.WriteFailOnce = true
	h.fault.WriteGate = make(chan struct{})
	h.fault.WriteParked = make(chan struct{})
	actx, acancel := context.WithCancel(context.Background())
	var ares callRes
	adone := make(chan struct{})
	go func() { ares = doCall(actx, h.sess, ckStat, 1); close(adone) }()
	<-h.fault.WriteParked // A's request is being written
	acancel()
	if q := mon.AwaitQuiesce(adone); !q.Done {
		w.Violate("hang", "C05:abandon-during-write:cancelled-call-did-not-return", "a call cancelled while its request was being written did not return", nil)
		close(h.fault.WriteGate)
		return
	}
	_ = ares
	close(h.fault.WriteGate) // now the write fails, nobody is waiting for its outcome
	settle()
	// other callers: served normally
	h.mu.Lock()
	h.onReq = func(fc *p9p.Fcall) { h.reply(replyFor(fc, uidOfRequest(fc))) }
	h.mu.Unlock()
	n := 2 + w.Rng.Intn(4)
	var wg sync.WaitGroup
	var mu sync.Mutex
	bad := ""
	for i := 0; i < n; i++ {
		wg.Add(1)
		go func(uid int) {
			defer wg.Done()
			r := doCall(context.Background(), h.sess, callKind(uid%int(nCallKinds)), uid)
			// after a failed write the channel's buffered writer stays failed, so these
			// calls may well return the write error — what matters is that each returns, once,
			// and with its own reply if it gets one
			if r.err == nil && r.uid != uid {
				mu.Lock()
				bad = fmt.Sprintf("call uid=%d returned uid=%d", uid, r.uid)
				mu.Unlock()
			}
		}(10 + i)
	}
	done := make(chan struct{})
	go func() { wg.Wait(); close(done) }()
	q := mon.AwaitQuiesce(done)
	if q.Hung {
		w.Violate("hang", "C05:abandon-during-write:others-never-return:"+q.Sites, fmt.Sprintf("after a call was abandoned during its write (which then failed) the other %d calls never return; blocked at %s", n, q.Sites), map[string]interface{}{"goroutines": mon.TrimDump(q.Dump, 6000)})
		return
	}
	if q.Inconclusive {
		return
	}
	if bad != "" {
		w.Violate("mismatch", "C05:abandon-during-write:crossed-or-lost", bad, nil)
		return
	}
	w.Count("calls_returned_own_uid", int64(n))
	w.NT(fmt.Sprintf("abandoned-write/%d", n))
}

// runC05Depletion: every one of the 65535 usable tags is outstanding (all callers have
// abandoned their calls, no reply was sent). One more call cannot be given a tag: it must
// fail, and no request carrying an outstanding tag may appear on the wire.
func runC05Depletion(w *mon.W, no int) {
	h := newCliH(0, 1<<20)
	defer h.close()
	w.Case("C05 depletion run #%d", no)
	if err := h.dial(); err != nil {
		w.Inconclusive("dial: %v", err)
		return
	}
	w.Eval()
	w.Count("depletion_runs", 1)
	const N = 0xFFFF
	var mu sync.Mutex
	held := map[p9p.Tag]*p9p.Fcall{}
	cancels := map[int]context.CancelFunc{}
	violated := false
	answerAll := false
	h.mu.Lock()
	h.onReq = func(fc *p9p.Fcall) {
		mu.Lock()
		defer mu.Unlock()
		u := uidOfRequest(fc)
		if fc.Tag == p9p.NOTAG {
			violated = true
			w.Violate("mismatch", "C05:notag-used", fmt.Sprintf("depletion run: request uid %d uses NOTAG", u), nil)
		}
		if old, ok := held[fc.Tag]; ok {
			violated = true
			w.Violate("mismatch", "C05:tag-reused-while-outstanding", fmt.Sprintf("depletion run: request uid %d was sent with tag %d which still awaits the reply of the abandoned call uid=%d (%d tags outstanding)", u, fc.Tag, uidOfRequest(old), len(held)), nil)
		}
		if answerAll {
			h.reply(replyFor(fc, u))
			return
		}
		held[fc.Tag] = fc
		if c := cancels[u]; c != nil {
			c()
		}
	}
	h.mu.Unlock()
	const workers = 8
	var wg sync.WaitGroup
	for k := 0; k < workers; k++ {
		wg.Add(1)
		go func(k int) {
			defer wg.Done()
			for i := k; i < N; i += workers {
				uid := i + 1
				ctx, cancel := context.WithCancel(context.Background())
				mu.Lock()
				cancels[uid] = cancel
				mu.Unlock()
				doCall(ctx, h.sess, ckStat, uid)
			}
		}(k)
	}
	done := make(chan struct{})
	go func() { wg.Wait(); close(done) }()
	q := mon.AwaitQuiesceLong(done, 25*time.Minute)
	if q.Hung {
		w.Violate("hang", "C05:hang:"+q.Sites, fmt.Sprintf("depletion run: abandoned callers have not returned although the process is quiescent; blocked at %s", q.Sites), nil)
		return
	}
	if !q.Done {
		w.Inconclusive("watchdog in depletion run")
		return
	}
	if !settle() {
		return
	}
	mu.Lock()
	n := len(held)
	mu.Unlock()
	w.Max("depletion_outstanding_tags", int64(n))
	if n != N {
		if !violated {
			w.Inconclusive("depletion run: %d tags outstanding, wanted %d", n, N)
		}
		return
	}
	// one more call: no tag can be had
	var extra callRes
	xdone := make(chan struct{})
	go func() { extra = doCall(context.Background(), h.sess, ckStat, 70001); close(xdone) }()
	q = mon.AwaitQuiesce(xdone)
	if q.Done {
		if extra.err == nil {
			w.Violate("mismatch", "C05:depleted-call-succeeded", fmt.Sprintf("with all 65535 tags outstanding one more call returned success (uid %d)", extra.uid), nil)
		}
		w.Count("depleted_call_refused", 1)
	} else if q.Hung {
		mu.Lock()
		v := violated
		mu.Unlock()
		if !v {
			w.Violate("hang", "C05:depleted-call-hangs:"+q.Sites, "with all 65535 tags outstanding one more call neither fails nor returns; blocked at "+q.Sites, nil)
		}
	}
	// the server now answers everything: the tags are free again and a new call works
	mu.Lock()
	all := make([]*p9p.Fcall, 0, len(held))
	for _, fc := range held {
		all = append(all, fc)
	}
	held = map[p9p.Tag]*p9p.Fcall{}
	answerAll = true
	mu.Unlock()
	for _, fc := range all {
		h.reply(replyFor(fc, uidOfRequest(fc)))
	}
	settle()
	var after callRes
	adone := make(chan struct{})
	go func() { after = doCall(context.Background(), h.sess, ckStat, 70002); close(adone) }()
	q = mon.AwaitQuiesce(adone)
	mu.Lock()
	v := violated
	mu.Unlock()
	if !v {
		if q.Hung {
			w.Violate("hang", "C05:call-after-depletion-hangs:"+q.Sites, "after every outstanding tag was answered a new call does not return; blocked at "+q.Sites, nil)
		} else if q.Done && (after.err != nil || after.uid != 70002) {
			w.Violate("mismatch", "C05:crossed-reply", fmt.Sprintf("after the tag pool was depleted and answered, a new call returned uid=%d err=%v", after.uid, after.err), nil)
		} else if q.Done {
			w.Count("calls_returned_own_uid", 1)
			w.NT(fmt.Sprintf("depletion/%d", no))
		}
	}
	w.Sample(map[string]interface{}{"depletion_run": no, "outstanding_tags": n, "extra_call_error": fmt.Sprint(extra.err)})
}

// runC05IdleWrap: one caller, one call at a time, so that no tag is outstanding when the
// allocator passes the end of the tag space.
func runC05IdleWrap(w *mon.W, no int, errorsOnly bool) {
	answer := func(fc *p9p.Fcall) *p9p.Fcall {
		if errorsOnly {
			return &p9p.Fcall{Type: p9p.Rerror, Tag: fc.Tag, Message: p9p.MessageRerror{Ename: fmt.Sprintf("e-%d", uidOfRequest(fc))}}
		}
		return replyFor(fc, uidOfRequest(fc))
	}
	own := func(r callRes, uid int) bool {
		if errorsOnly {
			re, ok := r.err.(p9p.MessageRerror)
			return ok && re.Ename == fmt.Sprintf("e-%d", uid)
		}
		return r.err == nil && r.uid == uid
	}
	h := newCliH(0, 1<<20)
	defer h.close()
	w.Case("C05 idle wrap run #%d (error replies only: %v)", no, errorsOnly)
	if err := h.dial(); err != nil {
		w.Inconclusive("dial: %v", err)
		return
	}
	w.Eval()
	w.Count("idle_wrap_runs", 1)
	if errorsOnly {
		w.Count("idle_wrap_runs_error_replies", 1)
	}
	var mu sync.Mutex
	seen, wraps, lastTag := 0, 0, -1
	violated := false
	// the first request that carries tag 0 (only possible after the wrap) is held back while
	// the connection's read side hiccups (a temporary timeout error, nothing lost): the
	// call must neither return nor be disturbed; then it is answered
	var held *p9p.Fcall
	heldCh := make(chan struct{})
	h.mu.Lock()
	h.onReq = func(fc *p9p.Fcall) {
		mu.Lock()
		seen++
		if fc.Tag == p9p.NOTAG {
			violated = true
			w.Violate("mismatch", "C05:notag-used", fmt.Sprintf("idle wrap: request #%d (uid %d) uses NOTAG (no other request outstanding)", seen, uidOfRequest(fc)), nil)
		}
		if int(fc.Tag) < lastTag {
			wraps++
		}
		lastTag = int(fc.Tag)
		if fc.Tag == 0 && held == nil && uidOfRequest(fc) < 900000 {
			held = fc
			mu.Unlock()
			close(heldCh)
			return
		}
		mu.Unlock()
		h.reply(answer(fc))
	}
	h.mu.Unlock()
	glitchDone := make(chan struct{})
	go func() {
		defer close(glitchDone)
		<-heldCh
		// read-side hiccups, interleaved with a ping call each so that the client's reader comes round to them
		for k := 0; k < 3; k++ {
			h.fault.Glitch(1)
			r := doCall(context.Background(), h.sess, ckStat, 900001+k)
			if !own(r, 900001+k) {
				w.Violate("mismatch", "C05:crossed-reply", fmt.Sprintf("idle wrap: ping call during a read hiccup returned uid=%d err=%v", r.uid, r.err), nil)
			}
		}
		w.Count("read_hiccups_with_tag0_outstanding", int64(h.fault.Glitched()))
		mu.Lock()
		fc := held
		mu.Unlock()
		h.reply(answer(fc))
	}()
	const total = 66100
	done := make(chan struct{})
	var tearingDown int32
	go func() {
		defer close(done)
		ctx := context.Background()
		for uid := 1; uid <= total; uid++ {
			r := doCall(ctx, h.sess, callKind(uid%int(nCallKinds)), uid)
			if !own(r, uid) {
				if atomic.LoadInt32(&tearingDown) == 0 {
					w.Violate("mismatch", "C05:crossed-reply", fmt.Sprintf("idle wrap (error replies only: %v): call uid=%d returned uid=%d err=%v", errorsOnly, uid, r.uid, r.err), nil)
				}
				return
			}
		}
	}()
	q := mon.AwaitQuiesceLong(done, 25*time.Minute)
	if !q.Done {
		atomic.StoreInt32(&tearingDown, 1)
	}
	if q.Hung {
		w.Violate("hang", "C05:hang:"+q.Sites, "idle wrap: the caller has not returned although the process is quiescent; blocked at "+q.Sites, nil)
		return
	}
	if q.Done {
		select {
		case <-glitchDone:
		default:
			mu.Lock()
			v := violated
			mu.Unlock()
			if !v {
				w.Inconclusive("idle wrap: tag 0 was never seen, the read-hiccup step did not run")
			}
		}
	}
	if !q.Done {
		w.Inconclusive("watchdog in idle wrap run")
		return
	}
	mu.Lock()
	defer mu.Unlock()
	w.Count("tag_wraps_observed", int64(wraps))
	w.Count("wrap_requests", int64(seen))
	if wraps == 0 && !violated {
		w.Inconclusive("idle wrap run saw no tag wrap in %d requests", seen)
	}
	if !violated {
		w.NT(fmt.Sprintf("idlewrap/%d/%v", no, errorsOnly))
	}
}
