package props

import (
	"context"
	"fmt"
	"sort"
	"strings"
	"sync"
	"time"

	p9p "github.com/frobnitzem/go-p9p"

	"verifharness/fsx"
	"verifharness/mon"
	"verifharness/wire"
)

// C20: the client file-system layer maps entries to fids faithfully, leaking none.
func init() {
	register(&mon.Spec{
		ID:    "C20",
		Level: "exploration",
		Rule: "PRNG sequences (5-40 operations) of Attach/Walk/Open/OpenDir/Create/Stat/WStat/Clunk/Remove and File Read/Write over a pool of live entries of p9p.CFileSys(spy(p9p.SFileSys(instrumented FS))); walk name lists from the path alphabet including every form the layer normalises " +
			`(".", "", "x/..", leading "..", mixtures) and missing/partial/failing names. Every fourth sequence runs over the wire (CFileSys(CSession) - ServeConn(SSession(spy))); walks from entries released earlier are mixed in. A spy Session records every session call; the server's fid table is read through the verif hook after every operation. ` +
			"Oracle: every operation issues exactly the corresponding session call(s) on the entry's own fid (walk: the normalised names, a fresh newfid distinct from every live entry's fid); a walk the server completed is reported as success with an entry whose qid is the walked-to file's and whose fid is the one the server bound; " +
			"after each operation the set of fids bound on the server equals the set of fids of live entries; after all entries are clunked/removed the server table is empty. non-trivial = the sequence contains a walk changed by normalisation or a partial/failed walk; distinct by op-trace hash",
		Assumptions: []string{
			"entry objects are opaque: an entry's fid is learned from the session call that created it (Attach fid / Walk newfid / Create fid) as seen by the spy",
			"operations the layer rejects locally (invalid names) may issue no session call, but must then return an error",
			"requires the verif-tagged fid-table hook",
		},
		Shards:   shards(8, 16),
		Timeout:  timeouts(12*time.Minute, 90*time.Minute),
		MinEvals: 1000,
		Required: []string{"walk:complete/normalised", "walk:complete/plain", "walk:partial", "walk:failed", "walk:rejected-locally", "op:create-ok", "op:clunk", "op:remove", "op:opendir-iterated", "final_table_checks", "table_comparisons", "wired_sequences", "walk:from-released-entry"},
		Run:      runC20,
	})
}

type spyCall struct {
	kind   string
	fid    p9p.Fid
	newfid p9p.Fid
	names  []string
	qids   []p9p.Qid
	err    error
}

type spySess struct {
	p9p.Session
	mu    sync.Mutex
	calls []spyCall
}

func (s *spySess) rec(c spyCall) { s.mu.Lock(); s.calls = append(s.calls, c); s.mu.Unlock() }
func (s *spySess) take() []spyCall {
	s.mu.Lock()
	defer s.mu.Unlock()
	c := s.calls
	s.calls = nil
	return c
}
func (s *spySess) Attach(ctx context.Context, fid, afid p9p.Fid, u, a string) (p9p.Qid, error) {
	q, err := s.Session.Attach(ctx, fid, afid, u, a)
	s.rec(spyCall{kind: "attach", fid: fid, newfid: afid, err: err})
	return q, err
}
func (s *spySess) Walk(ctx context.Context, fid, newfid p9p.Fid, names ...string) ([]p9p.Qid, error) {
	q, err := s.Session.Walk(ctx, fid, newfid, names...)
	s.rec(spyCall{kind: "walk", fid: fid, newfid: newfid, names: append([]string{}, names...), qids: q, err: err})
	return q, err
}
func (s *spySess) Open(ctx context.Context, fid p9p.Fid, m p9p.Flag) (p9p.Qid, uint32, error) {
	q, io, err := s.Session.Open(ctx, fid, m)
	s.rec(spyCall{kind: "open", fid: fid, err: err})
	return q, io, err
}
func (s *spySess) Create(ctx context.Context, fid p9p.Fid, name string, perm uint32, m p9p.Flag) (p9p.Qid, uint32, error) {
	q, io, err := s.Session.Create(ctx, fid, name, perm, m)
	s.rec(spyCall{kind: "create", fid: fid, names: []string{name}, err: err})
	return q, io, err
}
func (s *spySess) Read(ctx context.Context, fid p9p.Fid, p []byte, off int64) (int, error) {
	n, err := s.Session.Read(ctx, fid, p, off)
	s.rec(spyCall{kind: "read", fid: fid, err: err})
	return n, err
}
func (s *spySess) Write(ctx context.Context, fid p9p.Fid, p []byte, off int64) (int, error) {
	n, err := s.Session.Write(ctx, fid, p, off)
	s.rec(spyCall{kind: "write", fid: fid, err: err})
	return n, err
}
func (s *spySess) Stat(ctx context.Context, fid p9p.Fid) (p9p.Dir, error) {
	d, err := s.Session.Stat(ctx, fid)
	s.rec(spyCall{kind: "stat", fid: fid, err: err})
	return d, err
}
func (s *spySess) WStat(ctx context.Context, fid p9p.Fid, d p9p.Dir) error {
	err := s.Session.WStat(ctx, fid, d)
	s.rec(spyCall{kind: "wstat", fid: fid, err: err})
	return err
}
func (s *spySess) Clunk(ctx context.Context, fid p9p.Fid) error {
	err := s.Session.Clunk(ctx, fid)
	s.rec(spyCall{kind: "clunk", fid: fid, err: err})
	return err
}
func (s *spySess) Remove(ctx context.Context, fid p9p.Fid) error {
	err := s.Session.Remove(ctx, fid)
	s.rec(spyCall{kind: "remove", fid: fid, err: err})
	return err
}

type c20ent struct {
	ent  p9p.Dirent
	fid  p9p.Fid
	file p9p.File
	next p9p.ReadNext
	id   int
}

var c20names = []string{"a", "b", "d", "e", "g", "h", "..", ".", "", "missing", "xmissing", "d", "d", "kfail1", "rfail1", "ofail1", "iofail1", "kfaildir", "x/y"}

func genWalkC20(r rnd) []string {
	switch r.Intn(15) {
	case 12:
		return []string{[]string{"dappend", "dtmp", "dexcl"}[r.Intn(3)]}
	case 13, 14:
		// down the deep chain /p1/.../p20: 14-20 names, complete, or failing at a PRNG-chosen depth
		k := 14 + r.Intn(7)
		var out []string
		for i := 1; i <= k; i++ {
			out = append(out, fmt.Sprintf("p%d", i))
		}
		switch r.Intn(3) {
		case 0:
			out = append(out, "missing")
		case 1:
			out[len(out)-1-r.Intn(4)] = "missing"
		}
		return out
	case 0:
		return nil
	case 1:
		return []string{"."}
	case 2:
		return []string{""}
	case 3:
		return []string{"d", ".."}
	case 4:
		return []string{"d", "."}
	case 5:
		return []string{"d", "g", "..", "e"}
	case 6:
		return []string{"d", "missing"}
	case 7:
		return []string{"..", ".."}
	case 8:
		return []string{"d", "g", "h"}
	}
	n := 1 + r.Intn(4)
	out := make([]string, n)
	for i := range out {
		out[i] = c20names[r.Intn(len(c20names))]
	}
	return out
}

func runC20(w *mon.W) {
	total := w.Scale(2500, 2000000)
	for i := 0; i < total; i++ {
		if !w.Mine(i) {
			continue
		}
		runC20Seq(w, i)
	}
}

func runC20Seq(w *mon.W, seqNo int) {
	ctx := context.Background()
	fs := fsx.New()
	srv := p9p.SFileSys(fs)
	spy := &spySess{Session: srv}
	cfs := p9p.CFileSys(spy)
	// every fourth sequence runs over the wire: CFileSys(CSession) -> ServeConn(SSession(spy(SFileSys)))
	wired := seqNo%4 == 3
	if wired {
		var csess p9p.Session
		var cancel context.CancelFunc
		var cend, send *wire.End
		for attempt := 0; attempt < 3 && csess == nil; attempt++ {
			var sctx context.Context
			sctx, cancel = context.WithCancel(context.Background())
			cend, send = wire.BPipe(1 << 20)
			go func(send *wire.End) {
				p9p.ServeConn(sctx, send, p9p.SSession(spy))
				send.Close()
			}(send)
			cs, err := p9p.CSession(sctx, cend)
			if err != nil {
				cancel()
				cend.Close()
				continue
			}
			csess = cs
		}
		if csess == nil {
			w.Inconclusive("C20 wired sequence: handshake failed three times")
			return
		}
		defer func() { cancel(); cend.Close() }()
		cfs = p9p.CFileSys(csess)
		w.Count("wired_sequences", 1)
	}
	var live []*c20ent
	var dead []*c20ent
	var trace []string
	nontrivial := false
	nextID := 0
	n := 5 + w.Rng.Intn(36)
	w.CaseQuiet(fmt.Sprintf("C20 sequence #%d", seqNo))

	bad := func(sig, format string, a ...interface{}) {
		w.Violate("mismatch", "C20:"+sig, fmt.Sprintf(format, a...)+fmt.Sprintf("; after [%s]", strings.Join(trace, "; ")), map[string]interface{}{"trace": trace})
	}
	liveFids := func() map[p9p.Fid]bool {
		m := map[p9p.Fid]bool{}
		for _, e := range live {
			m[e.fid] = true
		}
		return m
	}
	drop := func(e *c20ent) {
		for i, x := range live {
			if x == e {
				live = append(live[:i], live[i+1:]...)
				if len(dead) < 8 {
					dead = append(dead, e)
				}
				return
			}
		}
	}
	checkTable := func(after string) bool {
		tab, ok := p9p.VerifFidTable(srv)
		if !ok {
			return true
		}
		w.Count("table_comparisons", 1)
		want := liveFids()
		got := map[p9p.Fid]bool{}
		for _, e := range tab {
			if e.Locked {
				bad("server-fid-locked", "after %s server fid %d is locked", after, e.Fid)
				return false
			}
			if e.Ent != nil {
				got[e.Fid] = true
			}
		}
		var extra, missing []string
		for f := range got {
			if !want[f] {
				extra = append(extra, fmt.Sprint(uint32(f)))
			}
		}
		for f := range want {
			if !got[f] {
				missing = append(missing, fmt.Sprint(uint32(f)))
			}
		}
		sort.Strings(extra)
		sort.Strings(missing)
		if len(extra) > 0 {
			bad("server-fid-leaked", "after %s the server holds fid(s) %v that no live entry owns (live entries own %v)", after, extra, keysOf(want))
			return false
		}
		if len(missing) > 0 {
			bad("entry-without-server-fid", "after %s live entries own fid(s) %v that the server does not have bound", after, missing)
			return false
		}
		return true
	}
	// expectOne: exactly one session call of kind on fid
	expectCalls := func(op string, e *c20ent, calls []spyCall, kinds ...string) bool {
		if len(calls) != len(kinds) {
			bad("wrong-call-count:"+op, "%s on entry e%d (fid %d) issued %d session calls %v, want %v", op, e.id, e.fid, len(calls), descCalls(calls), kinds)
			return false
		}
		for i, k := range kinds {
			if calls[i].kind != k || calls[i].fid != e.fid {
				bad("wrong-call:"+op, "%s on entry e%d (fid %d) issued %v, want %s on fid %d", op, e.id, e.fid, descCalls(calls), k, e.fid)
				return false
			}
		}
		return true
	}

	for step := 0; step < n; step++ {
		var e *c20ent
		if len(live) > 0 {
			e = live[w.Rng.Intn(len(live))]
		}
		op := w.Rng.Intn(16)
		if len(dead) > 0 && w.Rng.Intn(12) == 0 {
			// a walk from an entry that was released earlier: it fails, and leaves nothing behind on the server
			de := dead[w.Rng.Intn(len(dead))]
			if !liveFids()[de.fid] {
				names := [][]string{{"d"}, {}, {"d", "e"}, {"missing"}}[w.Rng.Intn(4)]
				spy.take()
				_, _, err := de.ent.Walk(ctx, names...)
				spy.take()
				trace = append(trace, fmt.Sprintf("e%d(released).Walk(%q)", de.id, names))
				w.Eval()
				w.Count("walk:from-released-entry", 1)
				if err == nil {
					bad("walk-from-released-entry-succeeded", "a walk from the released entry e%d (fid %d) succeeded", de.id, de.fid)
					return
				}
				if !checkTable("a walk from a released entry") {
					return
				}
				continue
			}
		}
		if e == nil || op == 0 {
			// Attach
			spy.take()
			ent, err := cfs.Attach(ctx, "u", "", nil)
			calls := spy.take()
			trace = append(trace, "Attach")
			w.Eval()
			if len(calls) != 1 || calls[0].kind != "attach" {
				bad("attach-calls", "Attach issued %v", descCalls(calls))
				return
			}
			if err != nil {
				continue
			}
			f := calls[0].fid
			if liveFids()[f] {
				bad("duplicate-fid", "Attach used fid %d which a live entry already owns", f)
				return
			}
			nextID++
			live = append(live, &c20ent{ent: ent, fid: f, id: nextID})
			if !checkTable("Attach") {
				return
			}
			continue
		}
		w.Eval()
		switch {
		case op <= 6: // Walk
			names := genWalkC20(w.Rng)
			norm, lead := refNormalize(names)
			spy.take()
			saved := append([]string{}, names...)
			qids, ent, err := e.ent.Walk(ctx, names...)
			calls := spy.take()
			trace = append(trace, fmt.Sprintf("e%d.Walk(%q)", e.id, saved))
			if !eqStrs(names, saved) {
				// a caller may resolve the same relative path against several entries
				bad("caller-names-modified", "Walk(%q) modified the caller's name list to %q (a second walk with the same slice would go elsewhere)", saved, names)
				return
			}
			if lead < 0 {
				w.Count("walk:rejected-locally", 1)
				if err == nil {
					bad("invalid-walk-accepted", "Walk(%q) with an invalid name list succeeded", names)
					return
				}
				if len(calls) != 0 {
					// sending it is allowed too, as long as nothing gets bound
				}
				if !checkTable("rejected Walk") {
					return
				}
				continue
			}
			if wired && len(norm) > 16 && len(calls) == 0 {
				// the client session refuses more than 16 names locally: fine, if nothing got bound
				w.Count("walk:over-16-names-refused-locally", 1)
				if err == nil {
					bad("invalid-walk-accepted", "Walk of %d names succeeded without any session call", len(norm))
					return
				}
				if !checkTable("locally refused long Walk") {
					return
				}
				continue
			}
			if len(calls) != 1 || calls[0].kind != "walk" || calls[0].fid != e.fid {
				bad("wrong-call:walk", "Walk(%q) on entry e%d (fid %d) issued %v", names, e.id, e.fid, descCalls(calls))
				return
			}
			c := calls[0]
			if !eqStrs(c.names, norm) {
				bad("walk-names-sent", "Walk(%q) sent names %q, want the normalised %q", names, c.names, norm)
				return
			}
			if c.newfid == e.fid || liveFids()[c.newfid] {
				bad("duplicate-fid", "Walk(%q) asked the server to bind newfid %d which a live entry already owns", names, c.newfid)
				return
			}
			changed := !eqStrs(norm, names)
			completed := c.err == nil && len(c.qids) == len(c.names)
			switch {
			case completed:
				if changed {
					w.Count("walk:complete/normalised", 1)
					nontrivial = true
				} else {
					w.Count("walk:complete/plain", 1)
				}
				if err != nil || ent == nil {
					bad("completed-walk-reported-failed", "the server completed Walk(%q) (sent %q, %d qids, bound fid %d) but the client layer reports err=%v", names, c.names, len(c.qids), c.newfid, err)
					return
				}
				if len(qids) != len(c.qids) {
					bad("walk-qids", "Walk(%q) returned %d qids, the server returned %d", names, len(qids), len(c.qids))
					return
				}
				wantQ := e.ent.Qid()
				if len(c.qids) > 0 {
					wantQ = c.qids[len(c.qids)-1]
				}
				if ent.Qid() != wantQ {
					bad("walk-entry-qid", "Walk(%q) returned an entry with qid %v, the walked-to file has %v", names, ent.Qid(), wantQ)
					return
				}
				nextID++
				ne := &c20ent{ent: ent, fid: c.newfid, id: nextID}
				live = append(live, ne)
				// the entry must really be the fid the server bound
				spy.take()
				ne.ent.Stat(ctx)
				if sc := spy.take(); len(sc) != 1 || sc[0].kind != "stat" || sc[0].fid != c.newfid {
					bad("walk-entry-fid", "the entry returned by Walk(%q) operates on %v, the server bound fid %d", names, descCalls(sc), c.newfid)
					return
				}
			case c.err != nil:
				w.Count("walk:failed", 1)
				nontrivial = true
				if err == nil {
					bad("failed-walk-reported-ok", "the server refused Walk(%q) (%v) but the client layer reports success", names, c.err)
					return
				}
			default:
				w.Count("walk:partial", 1)
				nontrivial = true
				if err == nil && ent != nil && len(c.names) > 0 {
					// a partial walk yields no entry
					if _, isWarn := err.(p9p.Warning); !isWarn {
						bad("partial-walk-reported-ok", "the server walked only %d of %d names for Walk(%q) but the client layer reports success", len(c.qids), len(c.names), names)
						return
					}
				}
			}
			if !checkTable(fmt.Sprintf("Walk(%q)", names)) {
				return
			}
		case op == 7: // Open + file I/O
			mode := []p9p.Flag{p9p.OREAD, p9p.OWRITE, p9p.ORDWR}[w.Rng.Intn(3)]
			spy.take()
			f, err := e.ent.Open(ctx, mode)
			calls := spy.take()
			trace = append(trace, fmt.Sprintf("e%d.Open(%d)", e.id, mode))
			if !expectCalls("Open", e, calls, "open") {
				return
			}
			if err == nil && f != nil {
				e.file = f
			}
		case op == 8: // OpenDir + iterate
			spy.take()
			next, err := e.ent.OpenDir(ctx)
			calls := spy.take()
			trace = append(trace, fmt.Sprintf("e%d.OpenDir", e.id))
			if !expectCalls("OpenDir", e, calls, "open") {
				return
			}
			if err == nil && next != nil {
				for k := 0; k < 20; k++ {
					ds, nerr := next(ctx)
					rc := spy.take()
					for _, c := range rc {
						if c.kind != "read" || c.fid != e.fid {
							bad("wrong-call:readdir", "directory iterator of e%d (fid %d) issued %v", e.id, e.fid, descCalls(rc))
							return
						}
					}
					if nerr != nil || len(ds) == 0 {
						break
					}
				}
				w.Count("op:opendir-iterated", 1)
			}
		case op == 9: // File read/write
			if e.file == nil {
				continue
			}
			spy.take()
			kind := "read"
			if w.Rng.Intn(2) == 0 {
				e.file.Read(ctx, make([]byte, 16), 0)
			} else {
				kind = "write"
				e.file.Write(ctx, make([]byte, 16), 0)
			}
			calls := spy.take()
			trace = append(trace, fmt.Sprintf("e%d.file.%s", e.id, kind))
			if !expectCalls("File."+kind, e, calls, kind) {
				return
			}
		case op == 10 || op == 11: // Create
			name := c08create[w.Rng.Intn(len(c08create))]
			perm := uint32(0644)
			if w.Rng.Intn(3) == 0 {
				perm |= p9p.DMDIR
			}
			spy.take()
			ne, f, err := e.ent.Create(ctx, name, perm, p9p.ORDWR)
			calls := spy.take()
			trace = append(trace, fmt.Sprintf("e%d.Create(%q,%#x)", e.id, name, perm))
			if len(calls) == 0 {
				if err == nil {
					bad("create-no-call", "Create(%q) succeeded without a session call", name)
					return
				}
				// only an unusable name or a non-directory entry may be refused without asking the server
				if name != "" && name != "." && name != ".." && !strings.ContainsAny(name, "/\\") && e.ent.Qid().Type&p9p.QTDIR != 0 {
					bad("create-not-issued", "Create(%q) on the directory entry e%d (qid type %#x) was refused locally (%v): no create was issued on the entry's fid", name, e.id, uint8(e.ent.Qid().Type), err)
					return
				}
				continue
			}
			if !expectCalls("Create", e, calls, "create") {
				return
			}
			if calls[0].err == nil {
				if err != nil || ne == nil {
					bad("create-reported-failed", "the server completed Create(%q) but the client layer reports err=%v", name, err)
					return
				}
				w.Count("op:create-ok", 1)
				// the fid now names the new file: the returned entry replaces the parent
				e.ent, e.file, e.next = ne, f, nil
				spy.take()
				e.ent.Stat(ctx)
				if sc := spy.take(); len(sc) != 1 || sc[0].fid != e.fid {
					bad("create-entry-fid", "the entry returned by Create(%q) operates on %v, want fid %d", name, descCalls(sc), e.fid)
					return
				}
			} else if err == nil {
				bad("create-reported-ok", "the server refused Create(%q) (%v) but the client layer reports success", name, calls[0].err)
				return
			} else if tab, ok := p9p.VerifFidTable(srv); ok {
				// A server may unbind the fid when a create cannot be completed (C08 leaves
				// that open): the entry is then dead by the server's decision, not leaked.
				still := false
				for _, te := range tab {
					if te.Fid == e.fid && te.Ent != nil {
						still = true
					}
				}
				if !still {
					w.Count("create-failed-and-server-unbound-the-fid", 1)
					drop(e)
				}
			}
			if !checkTable("Create") {
				return
			}
		case op == 12: // Stat
			spy.take()
			e.ent.Stat(ctx)
			calls := spy.take()
			trace = append(trace, fmt.Sprintf("e%d.Stat", e.id))
			if !expectCalls("Stat", e, calls, "stat") {
				return
			}
		case op == 13: // WStat
			spy.take()
			// a rename, a length change, a mode change - or the "sync" wstat in which every
			// field holds its don't-touch value: each is one wstat on the entry's fid
			wd := []p9p.Dir{
				{Name: "n"},
				{Mode: ^uint32(0), Length: 3, AccessTime: time.Unix(int64(^uint32(0)), 0), ModTime: time.Unix(int64(^uint32(0)), 0)},
				{Mode: 0600, Length: ^uint64(0), AccessTime: time.Unix(int64(^uint32(0)), 0), ModTime: time.Unix(int64(^uint32(0)), 0)},
				{Type: ^uint16(0), Dev: ^uint32(0), Qid: p9p.Qid{Type: 0xFF, Version: ^uint32(0), Path: ^uint64(0)}, Mode: ^uint32(0), Length: ^uint64(0), AccessTime: time.Unix(int64(^uint32(0)), 0), ModTime: time.Unix(int64(^uint32(0)), 0)},
				{Mode: ^uint32(0), Length: ^uint64(0)},
				{},
			}[w.Rng.Intn(6)]
			e.ent.WStat(ctx, wd)
			calls := spy.take()
			trace = append(trace, fmt.Sprintf("e%d.WStat", e.id))
			if !expectCalls("WStat", e, calls, "wstat") {
				return
			}
		case op == 14: // Clunk
			spy.take()
			e.ent.Clunk(ctx)
			calls := spy.take()
			trace = append(trace, fmt.Sprintf("e%d.Clunk", e.id))
			if !expectCalls("Clunk", e, calls, "clunk") {
				return
			}
			w.Count("op:clunk", 1)
			drop(e)
			if !checkTable("Clunk") {
				return
			}
		default: // Remove
			spy.take()
			e.ent.Remove(ctx)
			calls := spy.take()
			trace = append(trace, fmt.Sprintf("e%d.Remove", e.id))
			if !expectCalls("Remove", e, calls, "remove") {
				return
			}
			w.Count("op:remove", 1)
			drop(e)
			if !checkTable("Remove") {
				return
			}
		}
		w.Max("max_live_entries", int64(len(live)))
	}
	// release everything the caller obtained; the server must then hold nothing
	for len(live) > 0 {
		e := live[0]
		if w.Rng.Intn(3) == 0 {
			e.ent.Remove(ctx)
		} else {
			e.ent.Clunk(ctx)
		}
		drop(e)
	}
	trace = append(trace, "release all")
	w.Count("final_table_checks", 1)
	if !checkTable("releasing every entry") {
		return
	}
	if ps := fs.Problems(); len(ps) > 0 {
		bad("fs-monitor:"+ps[0].Kind, "file-system monitor: %s", ps[0].Msg)
		return
	}
	if nontrivial {
		w.NT(strings.Join(trace, ";"))
	}
	if w.SampleDue(499) {
		t := trace
		if len(t) > 16 {
			t = t[:16]
		}
		w.Sample(map[string]interface{}{"trace_head": t, "operations": len(trace)})
	}
}

func keysOf(m map[p9p.Fid]bool) []string {
	var out []string
	for k := range m {
		out = append(out, fmt.Sprint(uint32(k)))
	}
	sort.Strings(out)
	return out
}

func descCalls(cs []spyCall) string {
	var out []string
	for _, c := range cs {
		s := fmt.Sprintf("%s(fid %d", c.kind, c.fid)
		if c.kind == "walk" {
			s += fmt.Sprintf("->%d %q qids=%d", c.newfid, c.names, len(c.qids))
		}
		if c.err != nil {
			s += " err=" + c.err.Error()
		}
		out = append(out, s+")")
	}
	return "[" + strings.Join(out, ", ") + "]"
}
