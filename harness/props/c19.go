package props

import (
	"bytes"
	"context"
	"fmt"
	"io"
	"os"
	"path/filepath"
	"sort"
	"strings"
	"syscall"
	"time"

	p9p "github.com/frobnitzem/go-p9p"
	"github.com/frobnitzem/go-p9p/ufs"

	"verifharness/mon"
	"verifharness/refcodec"
)

// C19: the host-directory file server mirrors the host file system.
func init() {
	register(&mon.Spec{
		ID:    "C19",
		Level: "exploration",
		Rule: "operation sequences (1-40 steps) through p9p.SFileSys(ufs.NewServer(A)) on export directory A, each step mirrored by the equivalent direct OS call on twin directory B (create = OpenFile(O_CREATE|flags(mode), perm&0777), DMDIR => Mkdir, open = OpenFile(flags(mode)), read/write = ReadAt/WriteAt, wstat = Chmod / Rename within the directory / Truncate, remove = Remove; same process, same umask): " +
			"tree of <= 6 names in two directory levels; offsets {0,1,len,len+5,4096}; data lengths {0,1,100,70000}; open modes {OREAD,OWRITE,ORDWR,OEXEC} x OTRUNC; perms {0,0400,0600,0644,0755,0777} +- DMDIR; rename onto existing and non-existing names; remove of non-empty directories; truncate up and down; several changes in ONE wstat (rename+truncate, chmod+truncate); up to 3 fids opened OREAD/ORDWR/OEXEC stay open while later steps grow, truncate, rename or remove their file through other fids, and after every step their reads at {0, size/2, size-1, size, previous size, previous size-1} must equal ReadAt on a twin descriptor opened at the same moment. " +
			"Oracle after every step: success/failure equal on both sides; bytes read through the fid equal the bytes of A's host file at that offset; snapshot(A) == snapshot(B) (names, types, permission bits, sizes, contents); stat and listing obtained through freshly walked fids equal Lstat/ReadDir of A (name, dir bit, mode&0777, length, mtime to the second, qid path = inode). " +
			"non-trivial = the sequence contains a mutation after which a read or listing is checked; distinct by op-trace hash",
		Assumptions: []string{
			"runs as root in the sandbox: permission-denial paths are not reachable and are not observed",
			"mutations go through freshly walked fids, one per step; up to three fids opened for reading stay open across later steps and are re-read after each; uid/gid changes are not exercised (they need the host's user database)",
		},
		Shards:   shards(8, 16),
		Timeout:  timeouts(12*time.Minute, 90*time.Minute),
		MinEvals: 300,
		Required: []string{"op:create", "op:mkdir", "op:open-io", "op:open-trunc", "op:chmod", "op:rename", "op:rename-onto-existing", "op:truncate", "op:truncate-same-fid", "op:multi-wstat", "op:remove", "op:remove-nonempty-dir", "op:same-fid-after-wstat", "op:held-reader", "held_reader_reads_after_size_change", "stops_with_bound_fids", "snapshots_compared", "stats_compared", "listings_compared", "reads_compared"},
		Run:      runC19,
	})
}

type snapEnt struct {
	path string
	dir  bool
	perm os.FileMode
	size int64
	data string
}

func snapshot(root string) ([]snapEnt, error) {
	var out []snapEnt
	err := filepath.Walk(root, func(p string, info os.FileInfo, err error) error {
		if err != nil {
			return err
		}
		rel, _ := filepath.Rel(root, p)
		if rel == "." {
			return nil
		}
		e := snapEnt{path: rel, dir: info.IsDir(), perm: info.Mode().Perm()}
		if !info.IsDir() {
			b, rerr := os.ReadFile(p)
			if rerr != nil {
				return rerr
			}
			e.size, e.data = int64(len(b)), string(b)
		}
		out = append(out, e)
		return nil
	})
	sort.Slice(out, func(i, j int) bool { return out[i].path < out[j].path })
	return out, err
}

func diffSnap(a, b []snapEnt) string {
	if len(a) != len(b) {
		var an, bn []string
		for _, e := range a {
			an = append(an, e.path)
		}
		for _, e := range b {
			bn = append(bn, e.path)
		}
		return fmt.Sprintf("export has %v, twin has %v", an, bn)
	}
	for i := range a {
		x, y := a[i], b[i]
		if x.path != y.path || x.dir != y.dir {
			return fmt.Sprintf("entry %d: export %q dir=%v, twin %q dir=%v", i, x.path, x.dir, y.path, y.dir)
		}
		if x.perm != y.perm {
			return fmt.Sprintf("%q: export mode %o, twin mode %o", x.path, x.perm, y.perm)
		}
		if x.size != y.size || x.data != y.data {
			return fmt.Sprintf("%q: export holds %d bytes, twin %d bytes (contents equal: %v)", x.path, x.size, y.size, x.data == y.data)
		}
	}
	return ""
}

func oflagsRef(mode p9p.Flag) int {
	f := os.O_RDONLY
	switch mode & 3 {
	case p9p.OWRITE:
		f = os.O_WRONLY
	case p9p.ORDWR:
		f = os.O_RDWR
	}
	if mode&p9p.OTRUNC != 0 {
		f |= os.O_TRUNC
	}
	return f
}

var c19dirs = []string{"", "d1", "d2"}
var c19names = []string{"f1", "f2", "g", "d1", "d2", "sub", ".hid", "..x"}

func runC19(w *mon.W) {
	n := w.Scale(3000, 150000)
	for i := 0; i < n; i++ {
		if !w.Mine(i) {
			continue
		}
		runC19Seq(w, i)
	}
}

func runC19Seq(w *mon.W, no int) {
	r := w.Rng
	ctx := context.Background()
	base, err := os.MkdirTemp(w.Dir, fmt.Sprintf("c19-%d-", w.Shard))
	if err != nil {
		w.Inconclusive("mkdtemp: %v", err)
		return
	}
	defer os.RemoveAll(base)
	A, B := filepath.Join(base, "A"), filepath.Join(base, "B")
	os.Mkdir(A, 0755)
	os.Mkdir(B, 0755)
	sess := p9p.SFileSys(ufs.NewServer(ctx, A))
	var trace []string
	w.Case("C19 sequence #%d", no)
	bad := func(sig, format string, a ...interface{}) {
		w.Violate("mismatch", "C19:"+sig, fmt.Sprintf(format, a...)+fmt.Sprintf("; sequence #%d trace=[%s]", no, strings.Join(trace, "; ")), map[string]interface{}{"trace": trace})
	}
	if _, err := sess.Attach(ctx, 0, p9p.NOFID, "u", ""); err != nil {
		bad("attach", "attach failed: %v", err)
		return
	}
	next := p9p.Fid(1)
	// walkTo binds a fresh fid to rel ("" = root); ok=false if the path does not exist
	walkTo := func(rel string) (p9p.Fid, bool) {
		f := next
		next++
		var names []string
		if rel != "" {
			names = strings.Split(rel, "/")
		}
		qs, err := sess.Walk(ctx, 0, f, names...)
		if err != nil || len(qs) != len(names) {
			return f, false
		}
		return f, true
	}
	mutated := false
	checked := false
	held := 0
	// long-lived readers: fids opened for reading that stay open while later steps change
	// the file through other fids (growth, truncation, rename, removal); after every step
	// what they read must equal what a descriptor opened at the same moment on the twin reads
	type c19reader struct {
		f    p9p.Fid
		fb   *os.File
		rel  string
		last int64
	}
	var readers []*c19reader
	defer func() {
		for _, rd := range readers {
			rd.fb.Close()
		}
	}()
	checkReaders := func() bool {
		for _, rd := range readers {
			st, err := rd.fb.Stat()
			if err != nil {
				continue
			}
			sz := st.Size()
			for _, off := range []int64{0, sz / 2, sz - 1, sz, rd.last, rd.last - 1} {
				if off < 0 {
					continue
				}
				ba, bb := make([]byte, 200), make([]byte, 200)
				na, ea := sess.Read(ctx, rd.f, ba, off)
				nb, eb := rd.fb.ReadAt(bb, off)
				if eb == io.EOF {
					eb = nil
				}
				w.Count("held_reader_reads_compared", 1)
				if sz != rd.last {
					w.Count("held_reader_reads_after_size_change", 1)
				}
				if (ea != nil) != (eb != nil) || (ea == nil && !bytes.Equal(ba[:na], bb[:nb])) {
					bad("held-reader-differs", "fid %d, opened for reading on %q earlier in the sequence (size then %d, now %d): Read(off=%d) gives %d bytes err=%v, the twin's descriptor opened at the same moment gives %d bytes err=%v", rd.f, rd.rel, rd.last, sz, off, na, ea, nb, eb)
					return false
				}
			}
			rd.last = sz
		}
		return true
	}
	steps := 1 + r.Intn(40)
	for step := 0; step < steps; step++ {
		w.Eval()
		dir := c19dirs[r.Intn(len(c19dirs))]
		name := c19names[r.Intn(len(c19names))]
		rel := name
		if dir != "" {
			rel = dir + "/" + name
		}
		pa, pb := filepath.Join(A, rel), filepath.Join(B, rel)
		agree := func(what string, ea, eb error) bool {
			if (ea != nil) != (eb != nil) {
				bad("success-differs:"+strings.SplitN(what, " ", 2)[0], "%s: through ufs err=%v, direct OS call err=%v", what, ea, eb)
				return false
			}
			return true
		}
		switch op := r.Intn(16); {
		case op < 3: // create file + io
			perm := []uint32{0, 0400, 0600, 0644, 0755, 0777}[r.Intn(6)]
			mode := []p9p.Flag{p9p.OREAD, p9p.OWRITE, p9p.ORDWR, p9p.OEXEC}[r.Intn(4)]
			if r.Intn(3) == 0 {
				mode |= p9p.OTRUNC
			}
			pf, ok := walkTo(dir)
			var ea error
			if !ok {
				ea = fmt.Errorf("parent missing")
			} else {
				_, _, ea = sess.Create(ctx, pf, name, perm, mode)
			}
			fb, eb := os.OpenFile(pb, oflagsRef(mode)|os.O_CREATE, os.FileMode(perm&0777))
			trace = append(trace, fmt.Sprintf("create %s perm=%o mode=%#x", rel, perm, mode))
			w.Count("op:create", 1)
			if !agree("create "+rel, ea, eb) {
				return
			}
			if ea == nil {
				if !c19io(w, sess, pf, fb, pa, r, &trace, bad) {
					return
				}
				mutated = true
				if !c19sameFidTruncate(w, sess, pf, pb, r, &trace, agree) {
					return
				}
			}
			if fb != nil {
				fb.Close()
			}
			if ok {
				sess.Clunk(ctx, pf)
			}
		case op == 3: // mkdir
			perm := []uint32{0700, 0755, 0777, 0500}[r.Intn(4)]
			pf, ok := walkTo(dir)
			var ea error
			if !ok {
				ea = fmt.Errorf("parent missing")
			} else {
				_, _, ea = sess.Create(ctx, pf, name, p9p.DMDIR|perm, p9p.OREAD)
				sess.Clunk(ctx, pf)
			}
			eb := os.Mkdir(pb, os.FileMode(perm&0777))
			trace = append(trace, fmt.Sprintf("mkdir %s perm=%o", rel, perm))
			w.Count("op:mkdir", 1)
			if !agree("mkdir "+rel, ea, eb) {
				return
			}
			mutated = mutated || ea == nil
		case op < 7: // open existing + io
			mode := []p9p.Flag{p9p.OREAD, p9p.OWRITE, p9p.ORDWR, p9p.OEXEC}[r.Intn(4)]
			if r.Intn(3) == 0 {
				mode |= p9p.OTRUNC
				w.Count("op:open-trunc", 1)
			}
			f, ok := walkTo(rel)
			st, serr := os.Lstat(pb)
			if !ok {
				if serr == nil {
					bad("walk", "%s exists on the twin but cannot be walked to", rel)
					return
				}
				continue
			}
			if serr != nil {
				bad("walk", "%s can be walked to but does not exist on the twin", rel)
				return
			}
			if st.IsDir() {
				sess.Clunk(ctx, f)
				continue
			}
			_, _, ea := sess.Open(ctx, f, mode)
			fb, eb := os.OpenFile(pb, oflagsRef(mode), 0)
			trace = append(trace, fmt.Sprintf("open %s mode=%#x", rel, mode))
			w.Count("op:open-io", 1)
			if !agree("open "+rel, ea, eb) {
				return
			}
			if ea == nil {
				if mode&p9p.OTRUNC != 0 {
					mutated = true
				}
				if !c19io(w, sess, f, fb, pa, r, &trace, bad) {
					return
				}
				mutated = true
				if !c19sameFidTruncate(w, sess, f, pb, r, &trace, agree) {
					return
				}
				if mode&3 != p9p.OWRITE && len(readers) < 3 && r.Intn(3) == 0 {
					sz := int64(0)
					if st, e := fb.Stat(); e == nil {
						sz = st.Size()
					}
					readers = append(readers, &c19reader{f: f, fb: fb, rel: rel, last: sz})
					trace = append(trace, fmt.Sprintf("(fid %d stays open as a reader of %s)", f, rel))
					w.Count("op:held-reader", 1)
					held++
					break
				}
			}
			if fb != nil {
				fb.Close()
			}
			sess.Clunk(ctx, f)
		case op < 11: // wstat: chmod / rename / truncate / several at once
			f, ok := walkTo(rel)
			if !ok {
				continue
			}
			d := p9p.Dir{Mode: ^uint32(0), Length: ^uint64(0)}
			var mirror []func() error
			kind := r.Intn(5)
			newrel := ""
			renamedOK := false
			if kind == 0 || kind == 4 {
				perm := []uint32{0400, 0600, 0644, 0755, 0777, 0}[r.Intn(6)]
				d.Mode = perm
				mirror = append(mirror, func() error { return os.Chmod(pb, os.FileMode(perm&0777)) })
				w.Count("op:chmod", 1)
			}
			if kind == 1 || kind == 3 {
				nn := c19names[r.Intn(len(c19names))]
				d.Name = nn
				newrel = nn
				if dir != "" {
					newrel = dir + "/" + nn
				}
				if _, e := os.Lstat(filepath.Join(B, newrel)); e == nil {
					w.Count("op:rename-onto-existing", 1)
				}
				dst := filepath.Join(B, newrel)
				mirror = append(mirror, func() error {
					e := syscall.Rename(pb, dst)
					if e == nil {
						renamedOK = true
					}
					return e
				})
				w.Count("op:rename", 1)
			}
			if kind >= 2 {
				st, e := os.Lstat(pb)
				if e == nil && !st.IsDir() {
					nl := []int64{0, st.Size() / 2, st.Size(), st.Size() + 7, 5000}[r.Intn(5)]
					d.Length = uint64(nl)
					target := pb
					if newrel != "" {
						target = filepath.Join(B, newrel) // the rename comes first, the truncate applies to the renamed file
					}
					mirror = append(mirror, func() error { return os.Truncate(target, nl) })
					w.Count("op:truncate", 1)
				}
			}
			if len(mirror) > 1 {
				w.Count("op:multi-wstat", 1)
			}
			ea := sess.WStat(ctx, f, d)
			var eb error
			for _, m := range mirror {
				if eb = m(); eb != nil {
					break
				}
			}
			trace = append(trace, fmt.Sprintf("wstat %s mode=%o name=%q length=%d", rel, d.Mode, d.Name, int64(d.Length)))
			if len(mirror) > 0 && !agree("wstat "+rel, ea, eb) {
				return
			}
			if len(mirror) > 0 && r.Intn(2) == 0 {
				// the same fid is used again: it names the entry under its new name if (and only
				// if) the rename took place
				cur := pb
				if renamedOK {
					cur = filepath.Join(B, newrel)
				}
				perm := []uint32{0640, 0604, 0751}[r.Intn(3)]
				ea := sess.WStat(ctx, f, p9p.Dir{Mode: perm, Length: ^uint64(0)})
				eb := os.Chmod(cur, os.FileMode(perm))
				trace = append(trace, fmt.Sprintf("wstat (same fid) mode=%o", perm))
				w.Count("op:same-fid-after-wstat", 1)
				if !agree("chmod through the same fid after wstat "+rel, ea, eb) {
					return
				}
			}
			if r.Intn(5) == 0 {
				held++ // stays bound until the session stops
			} else {
				sess.Clunk(ctx, f)
			}
			mutated = true
		case op < 13: // remove
			f, ok := walkTo(rel)
			if !ok {
				continue
			}
			if st, e := os.Lstat(pb); e == nil && st.IsDir() {
				if ents, _ := os.ReadDir(pb); len(ents) > 0 {
					w.Count("op:remove-nonempty-dir", 1)
				}
			}
			ea := sess.Remove(ctx, f)
			eb := os.Remove(pb)
			trace = append(trace, "remove "+rel)
			w.Count("op:remove", 1)
			if !agree("remove "+rel, ea, eb) {
				return
			}
			mutated = true
		default: // stat + listing through freshly walked fids
			target := rel
			if r.Intn(2) == 0 {
				target = dir
			}
			f, ok := walkTo(target)
			st, serr := os.Lstat(filepath.Join(A, target))
			if !ok {
				if serr == nil {
					bad("walk", "%q exists in the export but cannot be walked to", target)
					return
				}
				continue
			}
			if serr != nil {
				bad("walk", "%q was walked to but does not exist in the export: %v", target, serr)
				return
			}
			d, err := sess.Stat(ctx, f)
			trace = append(trace, "stat "+target)
			if err != nil {
				bad("stat", "Stat of %q failed: %v", target, err)
				return
			}
			w.Count("stats_compared", 1)
			if p := cmpStat(d, st, target == ""); p != "" {
				bad("stat-differs", "Stat of %q through a freshly walked fid: %s", target, p)
				return
			}
			if st.IsDir() {
				if _, _, err := sess.Open(ctx, f, p9p.OREAD); err != nil {
					bad("opendir", "Open of directory %q failed: %v", target, err)
					return
				}
				got := map[string]p9p.Dir{}
				off := int64(0)
				for k := 0; k < 1000; k++ {
					buf := make([]byte, 8192)
					n, err := sess.Read(ctx, f, buf, off)
					if err != nil {
						bad("readdir", "directory read failed: %v", err)
						return
					}
					if n == 0 {
						break
					}
					rest := buf[:n]
					for len(rest) > 0 {
						de, used, derr := refcodec.DecodeStat(rest)
						if derr != nil {
							bad("readdir", "partial entry in a directory read: %v", derr)
							return
						}
						got[de.Name] = de
						rest = rest[used:]
					}
					off += int64(n)
				}
				ents, _ := os.ReadDir(filepath.Join(A, target))
				w.Count("listings_compared", 1)
				if len(ents) != len(got) {
					var gn, hn []string
					for k := range got {
						gn = append(gn, k)
					}
					for _, e := range ents {
						hn = append(hn, e.Name())
					}
					sort.Strings(gn)
					bad("listing-differs", "listing of %q is %v, the host directory holds %v", target, gn, hn)
					return
				}
				for _, e := range ents {
					info, _ := e.Info()
					de, ok := got[e.Name()]
					if !ok {
						bad("listing-differs", "listing of %q lacks %q", target, e.Name())
						return
					}
					if p := cmpStat(de, info, false); p != "" {
						bad("listing-entry-differs", "listing of %q, entry %q: %s", target, e.Name(), p)
						return
					}
				}
				if mutated {
					checked = true
				}
			}
			sess.Clunk(ctx, f)
		}
		if !checkReaders() {
			return
		}
		// snapshots must agree after every step
		sa, ea := snapshot(A)
		sb, eb := snapshot(B)
		if ea != nil || eb != nil {
			w.Inconclusive("snapshot failed: %v %v", ea, eb)
			return
		}
		w.Count("snapshots_compared", 1)
		if d := diffSnap(sa, sb); d != "" {
			bad("tree-differs", "after step %d the export and its twin differ: %s", step, d)
			return
		}
	}
	// the session ends with fids still bound (a client that disconnects without clunking):
	// the export must be left exactly as it is
	sess.Stop(nil)
	if held > 0 {
		w.Count("stops_with_bound_fids", 1)
	}
	sa, ea := snapshot(A)
	sb, eb := snapshot(B)
	if ea == nil && eb == nil {
		if d := diffSnap(sa, sb); d != "" {
			bad("tree-differs-after-stop", "after the session stopped with %d fid(s) still bound the export and its twin differ: %s", held, d)
			return
		}
	}
	if mutated && checked {
		w.NT(strings.Join(trace, ";"))
	}
	if w.SampleDue(199) {
		t := trace
		if len(t) > 16 {
			t = t[:16]
		}
		w.Sample(map[string]interface{}{"trace_head": t, "steps": len(trace)})
	}
}

func cmpStat(d p9p.Dir, st os.FileInfo, isRoot bool) string {
	if !isRoot && d.Name != st.Name() {
		return fmt.Sprintf("name %q, host %q", d.Name, st.Name())
	}
	if (d.Mode&p9p.DMDIR != 0) != st.IsDir() || (d.Qid.Type&p9p.QTDIR != 0) != st.IsDir() {
		return fmt.Sprintf("directory bit: mode %#x qid type %#x, host dir=%v", d.Mode, d.Qid.Type, st.IsDir())
	}
	if d.Mode&0777 != uint32(st.Mode().Perm()) {
		return fmt.Sprintf("mode %o, host %o", d.Mode&0777, st.Mode().Perm())
	}
	if !st.IsDir() && d.Length != uint64(st.Size()) {
		return fmt.Sprintf("length %d, host %d", d.Length, st.Size())
	}
	if d.ModTime.Unix() != st.ModTime().Unix() {
		return fmt.Sprintf("mtime %v, host %v", d.ModTime.Unix(), st.ModTime().Unix())
	}
	if sys, ok := st.Sys().(*syscall.Stat_t); ok && d.Qid.Path != sys.Ino {
		return fmt.Sprintf("qid path %d, host inode %d", d.Qid.Path, sys.Ino)
	}
	return ""
}

// c19io performs a few reads and writes through fid f, mirrored on fb, and compares.
func c19io(w *mon.W, sess p9p.Session, f p9p.Fid, fb *os.File, pa string, r rnd, trace *[]string, bad func(string, string, ...interface{})) bool {
	ctx := context.Background()
	for k := 0; k < 1+r.Intn(4); k++ {
		st, _ := os.Lstat(pa)
		l := int64(0)
		if st != nil {
			l = st.Size()
		}
		off := []int64{0, 1, l, l + 5, 4096}[r.Intn(5)]
		if r.Intn(2) == 0 {
			ln := []int{0, 1, 100, 70000}[r.Intn(4)]
			data := make([]byte, ln)
			for i := range data {
				data[i] = byte(i*3 + int(off) + k)
			}
			na, ea := sess.Write(ctx, f, data, off)
			nb, eb := fb.WriteAt(data, off)
			*trace = append(*trace, fmt.Sprintf("write off=%d len=%d", off, ln))
			if ln == 0 {
				continue // a zero-length write never reaches the host on the direct side: nothing to compare
			}
			if (ea != nil) != (eb != nil) || (ea == nil && na != nb) {
				bad("write-differs", "Write(off=%d,%d bytes): through ufs n=%d err=%v, direct n=%d err=%v", off, ln, na, ea, nb, eb)
				return false
			}
		} else {
			ln := []int{0, 1, 100, 70000}[r.Intn(4)]
			ba, bb := make([]byte, ln), make([]byte, ln)
			na, ea := sess.Read(ctx, f, ba, off)
			nb, eb := fb.ReadAt(bb, off)
			*trace = append(*trace, fmt.Sprintf("read off=%d len=%d", off, ln))
			w.Count("reads_compared", 1)
			if eb != nil && nb >= 0 && strings.Contains(eb.Error(), "EOF") {
				eb = nil // a short read at end of file is not an error on either side
			}
			if ln == 0 {
				continue
			}
			if (ea != nil) != (eb != nil) {
				bad("read-differs", "Read(off=%d,%d bytes): through ufs n=%d err=%v, direct n=%d err=%v", off, ln, na, ea, nb, eb)
				return false
			}
			if ea == nil {
				// data read through the fid equals the host file's content at that offset
				host, _ := os.ReadFile(pa)
				var want []byte
				if off < int64(len(host)) {
					want = host[off:]
					if len(want) > ln {
						want = want[:ln]
					}
				}
				if !bytes.Equal(ba[:na], want) {
					bad("read-data", "Read(off=%d,%d bytes) returned %d bytes that are not the host file's content at that offset (%d bytes available)", off, ln, na, len(want))
					return false
				}
			}
		}
	}
	return true
}

// c19sameFidTruncate truncates through the very fid that was just written through (its
// cached stat predates the writes), to the size the file had when the fid was bound among others.
func c19sameFidTruncate(w *mon.W, sess p9p.Session, f p9p.Fid, pb string, r rnd, trace *[]string, agree func(string, error, error) bool) bool {
	if r.Intn(3) != 0 {
		return true
	}
	st, err := os.Lstat(pb)
	if err != nil || st.IsDir() {
		return true
	}
	nl := []int64{0, 0, st.Size() / 2, st.Size(), 5}[r.Intn(5)]
	ea := sess.WStat(context.Background(), f, p9p.Dir{Mode: ^uint32(0), Length: uint64(nl)})
	eb := os.Truncate(pb, nl)
	*trace = append(*trace, fmt.Sprintf("wstat(same fid) length=%d", nl))
	w.Count("op:truncate-same-fid", 1)
	return agree("wstat(same fid) truncate", ea, eb)
}
