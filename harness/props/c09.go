package props

import (
	"bytes"
	"context"
	"errors"
	"fmt"
	"io"
	"net"
	"runtime"
	"strings"
	"sync"
	"sync/atomic"
	"time"

	p9p "github.com/frobnitzem/go-p9p"

	"verifharness/gen"
	"verifharness/mon"
	"verifharness/refcodec"
	"verifharness/wire"
)

// C09: a session served over a connection is indistinguishable from the session.
func init() {
	register(&mon.Spec{
		ID:    "C09",
		Level: "exploration",
		Rule: "a recording Session S behind p9p.ServeConn(p9p.SSession(S)) and a p9p.CSession client on the other end of an in-memory connection. Sequential part: each of the 11 session methods with boundary arguments (fids 0/1/NOFID/rnd, offsets {0,1,2^31,2^32,2^63-1,-1,-2^63,rnd}, read/write sizes {0,1,msize-24..msize+1,1 MiB}, all 256 mode bytes, perms incl. high bits, " +
			"names/unames of the codec length classes, extreme Dir records) x scripted results and errors (plain, MessageRerror, wrapped); the arguments S records must equal the caller's and the caller's results must equal S's, modulo exactly the documented limits: read buffer / write data clipped to msize-11 / msize-23 (prefix), timestamps to whole seconds, (0,nil) read == (0,EOF), short write adds io.ErrShortWrite, more than 16 walk names refused locally, errors compared by ename. " +
			"Concurrent part: n in {2,4,5,8,16,64} callers x payloads {tiny, 4 KiB, msize} over connections buffering {0, 4 KiB, 64 KiB, 1 MiB} per direction, every call carrying a unique id: each caller must obtain its own result and all must complete (quiescence-based hang detection with the blocked sites as witness). Race detector on the six files of the path. " +
			"non-trivial = non-default argument tuple, or a concurrent cell with >= 2 calls overlapping on the wire; distinct by (method, argument classes, result class) / (n, buffer, payload)",
		Assumptions: []string{
			"errors are compared by ename: ename(e) = e.Ename for MessageRerror values/pointers, else e.Error()",
			"cells whose requests or replies cannot all be buffered by the connection are where the flow-control deadlock of KNOWN_FINDINGS can occur; every other hang, and any crossed or lost result in any cell, is a violation",
		},
		Race:      true,
		RaceFiles: []string{"csession.go", "ssesssion.go", "transport.go", "serveconn.go", "channel.go", "encoding.go"},
		Shards:    shards(8, 16),
		Timeout:   timeouts(12*time.Minute, 90*time.Minute),
		MinEvals:  300,
		Required:  []string{"method:Auth", "method:Attach", "method:Walk", "method:Open", "method:Create", "method:Read", "method:Write", "method:Stat", "method:WStat", "method:Clunk", "method:Remove", "error_results", "clipped_reads", "clipped_writes", "walk_limit_local", "concurrent_cells", "concurrent_calls_own_result", "abandon_cells", "wrap_cells", "deadline_then_plain", "many_blocked_cells", "fragmenting_pairs"},
		Run:       runC09,
	})
}

// ---- recording session

type recCall struct {
	method string
	fid    p9p.Fid
	fid2   p9p.Fid
	s1, s2 string
	names  []string
	off    int64
	n      int
	data   []byte
	mode   p9p.Flag
	perm   uint32
	dir    p9p.Dir
}

type recResult struct {
	err    error
	qid    p9p.Qid
	qids   []p9p.Qid
	iounit uint32
	data   []byte
	n      int
	dir    p9p.Dir
}

type recSession struct {
	mu    sync.Mutex
	calls []recCall
	next  recResult
	// concurrent mode: results are derived from the fid (= uid) instead of next
	byUID   bool
	hold    chan struct{} // if non-nil, every call waits on it (to force overlap)
	holdFid p9p.Fid       // if non-zero, only the call on this fid waits
	inCall  int
	maxIn   int
	errFid  p9p.Fid // byUID mode: calls on this fid are answered with an error
}

func (s *recSession) rec(c recCall) recResult {
	s.mu.Lock()
	s.calls = append(s.calls, c)
	r := s.next
	s.inCall++
	if s.inCall > s.maxIn {
		s.maxIn = s.inCall
	}
	hold := s.hold
	if s.holdFid != 0 && c.fid != s.holdFid {
		hold = nil
	}
	s.mu.Unlock()
	if hold != nil {
		<-hold
	}
	s.mu.Lock()
	s.inCall--
	s.mu.Unlock()
	return r
}

func uidQid(f p9p.Fid) p9p.Qid { return p9p.Qid{Path: uint64(f), Version: uint32(f) * 3} }

func (s *recSession) Auth(ctx context.Context, afid p9p.Fid, uname, aname string) (p9p.Qid, error) {
	r := s.rec(recCall{method: "Auth", fid: afid, s1: uname, s2: aname})
	return r.qid, r.err
}
func (s *recSession) Attach(ctx context.Context, fid, afid p9p.Fid, uname, aname string) (p9p.Qid, error) {
	r := s.rec(recCall{method: "Attach", fid: fid, fid2: afid, s1: uname, s2: aname})
	if s.byUID {
		return uidQid(fid), nil
	}
	return r.qid, r.err
}
func (s *recSession) Clunk(ctx context.Context, fid p9p.Fid) error {
	return s.rec(recCall{method: "Clunk", fid: fid}).err
}
func (s *recSession) Remove(ctx context.Context, fid p9p.Fid) error {
	return s.rec(recCall{method: "Remove", fid: fid}).err
}
func (s *recSession) Walk(ctx context.Context, fid, newfid p9p.Fid, names ...string) ([]p9p.Qid, error) {
	r := s.rec(recCall{method: "Walk", fid: fid, fid2: newfid, names: append([]string{}, names...)})
	if s.byUID {
		return []p9p.Qid{uidQid(fid)}, nil
	}
	return r.qids, r.err
}
func (s *recSession) Read(ctx context.Context, fid p9p.Fid, p []byte, offset int64) (int, error) {
	r := s.rec(recCall{method: "Read", fid: fid, off: offset, n: len(p)})
	if s.byUID {
		// fill the whole buffer with a pattern derived from the uid
		for i := range p {
			p[i] = byte(int(fid)*7 + i)
		}
		return len(p), nil
	}
	n := copy(p, r.data)
	return n, r.err
}
func (s *recSession) Write(ctx context.Context, fid p9p.Fid, p []byte, offset int64) (int, error) {
	r := s.rec(recCall{method: "Write", fid: fid, off: offset, n: len(p), data: append([]byte{}, p...)})
	if s.byUID {
		return len(p), nil
	}
	return r.n, r.err
}
func (s *recSession) Open(ctx context.Context, fid p9p.Fid, mode p9p.Flag) (p9p.Qid, uint32, error) {
	r := s.rec(recCall{method: "Open", fid: fid, mode: mode})
	if s.byUID && s.errFid != 0 && fid == s.errFid {
		return p9p.Qid{}, 0, fmt.Errorf("refused-%d", fid)
	}
	if s.byUID {
		return uidQid(fid), uint32(fid), nil
	}
	return r.qid, r.iounit, r.err
}
func (s *recSession) Create(ctx context.Context, parent p9p.Fid, name string, perm uint32, mode p9p.Flag) (p9p.Qid, uint32, error) {
	r := s.rec(recCall{method: "Create", fid: parent, s1: name, perm: perm, mode: mode})
	if s.byUID {
		return uidQid(parent), uint32(parent), nil
	}
	return r.qid, r.iounit, r.err
}
func (s *recSession) Stat(ctx context.Context, fid p9p.Fid) (p9p.Dir, error) {
	r := s.rec(recCall{method: "Stat", fid: fid})
	if s.byUID {
		return p9p.Dir{Name: fmt.Sprintf("uid-%d", fid), Qid: uidQid(fid)}, nil
	}
	return r.dir, r.err
}
func (s *recSession) WStat(ctx context.Context, fid p9p.Fid, dir p9p.Dir) error {
	return s.rec(recCall{method: "WStat", fid: fid, dir: dir}).err
}
func (s *recSession) Version() (int, string) { return p9p.DefaultMSize, p9p.DefaultVersion }
func (s *recSession) Stop(err error) error   { return err }

func (s *recSession) takeCalls() []recCall {
	s.mu.Lock()
	defer s.mu.Unlock()
	c := s.calls
	s.calls = nil
	return c
}

// ---- the pair

type c09pair struct {
	S       *recSession
	cli     p9p.Session
	cend    *wire.End
	send    *wire.End
	cancel  context.CancelFunc
	srvDone chan struct{}
	msize   int
	closers []io.Closer
}

// c09frag, if non-zero, makes the next pairs deliver at most that many bytes per Read on both
// ends (a stream socket handing over small segments).
var c09frag int

func newC09Pair(bufCap int, rewriteMsize uint32) (*c09pair, error) {
	p := &c09pair{S: &recSession{}, srvDone: make(chan struct{})}
	ctx, cancel := context.WithCancel(context.Background())
	p.cancel = cancel
	p.cend, p.send = wire.BPipe(bufCap)
	var conn net.Conn = p.cend
	var sconn net.Conn = p.send
	if bufCap == -1 {
		// the standard library's synchronous pipe instead of the harness's: shows that a
		// finding on an unbuffered connection is not an artefact of wire.BPipe
		c, s := net.Pipe()
		conn, sconn = c, s
		p.closers = []io.Closer{c, s}
	}
	if c09frag > 0 {
		conn, sconn = &wire.Frag{Conn: conn, Max: c09frag}, &wire.Frag{Conn: sconn, Max: c09frag}
	}
	go func() {
		p9p.ServeConn(ctx, sconn, p9p.SSession(p.S))
		// like any server: the connection is closed when serving ends (so that a client whose
		// handshake missed ServeConn's real 1 s negotiation timeout on a loaded machine sees EOF)
		sconn.Close()
		close(p.srvDone)
	}()
	var err error
	if rewriteMsize != 0 {
		tap := wire.NewTap(conn)
		tap.RewriteMsize = rewriteMsize
		tap.Keep = false
		p.cli, err = p9p.CSession(ctx, tap)
	} else {
		p.cli, err = p9p.CSession(ctx, conn)
	}
	if err != nil {
		p.close()
		return nil, err
	}
	p.msize, _ = p.cli.Version()
	return p, nil
}

func (p *c09pair) close() {
	p.cancel()
	p.cend.Close()
	p.send.Close()
	for _, c := range p.closers {
		c.Close()
	}
	mon.AwaitQuiesce(p.srvDone)
}

func c09errs(r rnd, g *gen.G) error {
	switch r.Intn(6) {
	case 0:
		return errors.New("plain: " + g.StrN(r.Intn(20)))
	case 1:
		return p9p.MessageRerror{Ename: "value " + g.StrN(r.Intn(20))}
	case 2:
		return &p9p.MessageRerror{Ename: "pointer " + g.StrN(r.Intn(20))}
	case 3:
		return fmt.Errorf("wrapped %d: %w", r.Intn(100), p9p.ErrPerm)
	case 4:
		return p9p.ErrUnknownfid
	}
	return errors.New("")
}

func c09ename(err error) string { return enameOf(err) }

func runC09(w *mon.W) {
	// ---- sequential part
	n := w.Scale(5000, 400000)
	var pair *c09pair
	pairCalls := 0
	defer func() {
		if pair != nil {
			pair.close()
		}
	}()
	g := gen.Small(w.Rng)
	g.MaxStr, g.MaxData, g.MaxList = 300, 1200, 16
	methods := []string{"Auth", "Attach", "Walk", "Open", "Create", "Read", "Write", "Stat", "WStat", "Clunk", "Remove"}
	for i := 0; i < n; i++ {
		if !w.Mine(i) {
			continue
		}
		if pair == nil || pairCalls > 400 {
			if pair != nil {
				pair.close()
			}
			ms := uint32(0)
			if w.Rng.Intn(3) == 0 {
				ms = []uint32{4096, 8192, 1024, 300}[w.Rng.Intn(4)]
			}
			c09frag = 0
			if w.Rng.Intn(4) == 0 {
				c09frag = []int{1, 2, 3, 7}[w.Rng.Intn(4)]
				w.Count("fragmenting_pairs", 1)
			}
			var err error
			for attempt := 0; attempt < 3; attempt++ {
				pair, err = newC09Pair(1<<21, ms)
				if err == nil {
					break
				}
			}
			if err != nil {
				w.Inconclusive("cannot establish the pair: %v", err)
				return
			}
			pairCalls = 0
		}
		pairCalls++
		if !c09One(w, pair, g, methods[(i/w.NShards)%len(methods)]) {
			pair.close()
			pair = nil
		}
	}
	if pair != nil {
		pair.close()
		pair = nil
	}
	c09frag = 0
	// ---- a call with a deadline, then (the connection's clock past that deadline) calls without one
	for i := 0; i < w.Scale(8, 200); i++ {
		if w.Mine(i) {
			c09DeadlineThenPlain(w, i)
		}
	}
	// ---- hundreds of calls blocked inside S at once, released by one more call
	for i := 0; i < w.Scale(2, 40); i++ {
		if w.Mine(i) {
			c09ManyBlocked(w, []int{130, 200, 300, 520}[i%4])
		}
	}
	// ---- an abandoned call answered late must not stall the other callers
	for i := 0; i < w.Scale(16, 400); i++ {
		if w.Mine(i) {
			c09Abandon(w, 2+w.Rng.Intn(6))
		}
	}
	// ---- a call pending across a wrap of the 16-bit tag space (one shard per run; thorough: several)
	for i := 0; i < w.Scale(1, 4)*w.NShards; i++ {
		if w.Mine(i) && (w.Thorough() || i == 0) {
			c09Wrap(w)
		}
	}
	// ---- concurrent part
	cells := 0
	rounds := w.Scale(1, 25)
	for round := 0; round < rounds; round++ {
		for _, nc := range []int{2, 4, 5, 8, 16, 64} {
			caps := []int{0, 4 << 10, 64 << 10, 1 << 20}
			if w.Thorough() {
				caps = append(caps, -1) // net.Pipe
			}
			for _, capB := range caps {
				for _, payload := range []string{"tiny", "4k", "msize"} {
					cells++
					if !w.Mine(cells) {
						continue
					}
					c09Concurrent(w, nc, capB, payload)
				}
			}
		}
	}
}

func c09fid(r rnd) p9p.Fid {
	switch r.Intn(5) {
	case 0:
		return 0
	case 1:
		return 1
	case 2:
		return p9p.NOFID
	}
	return p9p.Fid(uint32(r.Intn(1 << 30)))
}

func c09off(r rnd) int64 {
	offs := []int64{0, 1, 1 << 31, 1 << 32, 1<<63 - 1, -1, -1 << 63, 4096}
	if r.Intn(4) == 0 {
		return int64(r.Intn(1<<30)) << uint(r.Intn(33))
	}
	return offs[r.Intn(len(offs))]
}

// c09One performs one call under the hang detector and compares both directions.
// Returns false if the pair is unusable afterwards.
func c09One(w *mon.W, p *c09pair, g *gen.G, method string) bool {
	fin := make(chan struct{})
	ok := false
	go func() { ok = c09OneInner(w, p, g, method); close(fin) }()
	q := mon.AwaitQuiesce(fin)
	if q.Hung {
		w.Violate("hang", "C09:sequential-call-hangs:"+method, fmt.Sprintf("a sequential %s call has not returned although the process is quiescent; blocked at %s", method, q.Sites), map[string]interface{}{"goroutines": mon.TrimDump(q.Dump, 8000)})
		return false
	}
	if q.Inconclusive {
		w.Inconclusive("watchdog in sequential %s", method)
		return false
	}
	return ok
}

func c09OneInner(w *mon.W, p *c09pair, g *gen.G, method string) bool {
	r := w.Rng
	ctx := context.Background()
	M := p.msize
	w.Eval()
	w.Count("method:"+method, 1)
	fail := func(sig, format string, a ...interface{}) bool {
		w.Violate("mismatch", "C09:"+method+":"+sig, fmt.Sprintf(format, a...)+fmt.Sprintf("; msize=%d", M), nil)
		return false
	}
	// keep requests and results within the negotiated msize (strings share the frame) ...
	g.MaxStr = 300
	if lim := (M - 120) / 8; lim < g.MaxStr {
		g.MaxStr = lim
	}
	// ... except for deliberate probes with a string that cannot fit: the call must fail
	// locally, S must see nothing, and the session must stay usable
	if r.Intn(12) == 0 && M < 65536 && (method == "Attach" || method == "Auth" || method == "Create" || method == "WStat") {
		big := strings.Repeat("x", M)
		var err error
		var fin = make(chan struct{})
		go func() {
			switch method {
			case "Attach":
				_, err = p.cli.Attach(ctx, 1, p9p.NOFID, big, "a")
			case "Auth":
				_, err = p.cli.Auth(ctx, 1, "u", big)
			case "Create":
				_, _, err = p.cli.Create(ctx, 1, big, 0644, p9p.OREAD)
			default:
				err = p.cli.WStat(ctx, 1, p9p.Dir{Name: big})
			}
			close(fin)
		}()
		if q := mon.AwaitQuiesce(fin); !q.Done {
			return fail("oversize-request-hangs", "a %s whose frame cannot fit msize does not return", method)
		}
		if err == nil || len(p.S.takeCalls()) != 0 {
			return fail("oversize-request", "a %s whose frame cannot fit msize %d returned err=%v and reached S", method, M, err)
		}
		w.Count("oversize_request_probes", 1)
		return true
	}
	var wantErr error
	if r.Intn(4) == 0 {
		wantErr = c09errs(r, g)
		w.Count("error_results", 1)
	}
	p.S.mu.Lock()
	p.S.next = recResult{err: wantErr}
	p.S.mu.Unlock()
	checkErr := func(got error) bool {
		if wantErr == nil {
			if got != nil {
				return fail("unexpected-error", "S returned no error, the caller got %v", got)
			}
			return true
		}
		if got == nil {
			return fail("error-lost", "S returned error %q, the caller got none", wantErr)
		}
		if c09ename(got) != c09ename(wantErr) {
			return fail("error-text", "S returned error with ename %q, the caller got %q", c09ename(wantErr), c09ename(got))
		}
		return true
	}
	one := func() (recCall, bool) {
		cs := p.S.takeCalls()
		if len(cs) != 1 || cs[0].method != method {
			var ms []string
			for _, c := range cs {
				ms = append(ms, c.method)
			}
			fail("wrong-dispatch", "one %s call was made, S saw %v", method, ms)
			return recCall{}, false
		}
		return cs[0], true
	}
	key := method
	switch method {
	case "Auth", "Attach":
		fid, afid := c09fid(r), c09fid(r)
		ss := g.Strs(2)
		q := g.Qid()
		p.S.next.qid = q
		var got p9p.Qid
		var err error
		if method == "Auth" {
			got, err = p.cli.Auth(ctx, afid, ss[0], ss[1])
		} else {
			got, err = p.cli.Attach(ctx, fid, afid, ss[0], ss[1])
		}
		c, ok := one()
		if !ok {
			return false
		}
		if method == "Auth" && (c.fid != afid || c.s1 != ss[0] || c.s2 != ss[1]) {
			return fail("args", "Auth(%d,%q,%q) arrived as (%d,%q,%q)", afid, ss[0], ss[1], c.fid, c.s1, c.s2)
		}
		if method == "Attach" && (c.fid != fid || c.fid2 != afid || c.s1 != ss[0] || c.s2 != ss[1]) {
			return fail("args", "Attach(%d,%d,%q,%q) arrived as (%d,%d,%q,%q)", fid, afid, ss[0], ss[1], c.fid, c.fid2, c.s1, c.s2)
		}
		if !checkErr(err) {
			return false
		}
		if wantErr == nil && got != q {
			return fail("result", "S returned qid %v, the caller got %v", q, got)
		}
		key += fmt.Sprintf("/%d/%d", len(ss[0]), len(ss[1]))
	case "Walk":
		fid, nf := c09fid(r), c09fid(r)
		nn := []int{0, 1, 2, 16, 17, 20}[r.Intn(6)]
		names := make([]string, nn)
		for i := range names {
			names[i] = g.StrN(r.Intn(12))
		}
		qs := make([]p9p.Qid, r.Intn(nn+1))
		for i := range qs {
			qs[i] = g.Qid()
		}
		p.S.next.qids = qs
		got, err := p.cli.Walk(ctx, fid, nf, names...)
		if nn > 16 {
			w.Count("walk_limit_local", 1)
			if len(p.S.takeCalls()) != 0 || err == nil {
				return fail("walk-limit", "a walk of %d names must be refused locally (err=%v)", nn, err)
			}
			w.NT(key + "/limit")
			return true
		}
		c, ok := one()
		if !ok {
			return false
		}
		if c.fid != fid || c.fid2 != nf || !eqStrs(c.names, names) {
			return fail("args", "Walk(%d,%d,%q) arrived as (%d,%d,%q)", fid, nf, names, c.fid, c.fid2, c.names)
		}
		if !checkErr(err) {
			return false
		}
		if wantErr == nil {
			if len(got) != len(qs) {
				return fail("result", "S returned %d qids, the caller got %d", len(qs), len(got))
			}
			for i := range qs {
				if got[i] != qs[i] {
					return fail("result", "qid %d differs: %v vs %v", i, got[i], qs[i])
				}
			}
		}
		key += fmt.Sprintf("/%d/%d", nn, len(qs))
	case "Open", "Create":
		fid := c09fid(r)
		mode := p9p.Flag(r.Intn(256))
		perm := g.U32()
		name := g.Str()
		q, io := g.Qid(), g.U32()
		p.S.next.qid, p.S.next.iounit = q, io
		var gq p9p.Qid
		var gio uint32
		var err error
		if method == "Open" {
			gq, gio, err = p.cli.Open(ctx, fid, mode)
		} else {
			gq, gio, err = p.cli.Create(ctx, fid, name, perm, mode)
		}
		c, ok := one()
		if !ok {
			return false
		}
		if c.fid != fid || c.mode != mode || (method == "Create" && (c.s1 != name || c.perm != perm)) {
			return fail("args", "%s(fid=%d,name=%q,perm=%#x,mode=%#x) arrived as (fid=%d,name=%q,perm=%#x,mode=%#x)", method, fid, name, perm, mode, c.fid, c.s1, c.perm, c.mode)
		}
		if !checkErr(err) {
			return false
		}
		if wantErr == nil && (gq != q || gio != io) {
			return fail("result", "S returned (%v,%d), the caller got (%v,%d)", q, io, gq, gio)
		}
		key += fmt.Sprintf("/%d/%d", mode, len(name))
	case "Read":
		fid, off := c09fid(r), c09off(r)
		sizes := []int{0, 1, 100, M - 24, M - 12, M - 11, M - 10, M, M + 1, 1 << 20}
		sz := sizes[r.Intn(len(sizes))]
		if sz < 0 {
			sz = 0
		}
		// what S returns: some prefix-length of the buffer it is given
		avail := sz
		if avail > M-11 {
			avail = M - 11
			w.Count("clipped_reads", 1)
		}
		ret := avail
		if r.Intn(3) == 0 && avail > 0 {
			ret = r.Intn(avail + 1)
		}
		data := g.DataN(ret)
		p.S.next.data = data
		buf := make([]byte, sz)
		n, err := p.cli.Read(ctx, fid, buf, off)
		c, ok := one()
		if !ok {
			return false
		}
		if c.fid != fid || c.off != off || c.n != avail {
			return fail("args", "Read(fid=%d, len=%d, off=%d) arrived as (fid=%d, len=%d, off=%d); expected length min(len, msize-11)=%d", fid, sz, off, c.fid, c.n, c.off, avail)
		}
		if wantErr != nil {
			if !checkErr(err) {
				return false
			}
			break
		}
		if ret == 0 {
			if n != 0 || (err != nil && err != io.EOF) {
				return fail("result", "S returned (0,nil); the caller got (%d,%v)", n, err)
			}
		} else if err != nil || n != ret || !bytes.Equal(buf[:n], data) {
			return fail("result", "S returned %d bytes; the caller got n=%d err=%v (data equal: %v)", ret, n, err, n <= len(buf) && bytes.Equal(buf[:n], data))
		}
		key += fmt.Sprintf("/%d/%d", sz-M, off)
	case "Write":
		fid, off := c09fid(r), c09off(r)
		sizes := []int{0, 1, 100, M - 24, M - 23, M - 22, M, 1 << 20}
		sz := sizes[r.Intn(len(sizes))]
		if sz < 0 {
			sz = 0
		}
		data := g.DataN(sz)
		keep := append([]byte{}, data...)
		avail := sz
		if avail > M-23 {
			avail = M - 23
			w.Count("clipped_writes", 1)
		}
		ret := avail
		if r.Intn(3) == 0 && avail > 0 {
			ret = r.Intn(avail + 1)
		}
		p.S.next.n = ret
		n, err := p.cli.Write(ctx, fid, data, off)
		c, ok := one()
		if !ok {
			return false
		}
		if c.fid != fid || c.off != off || !bytes.Equal(c.data, keep[:avail]) {
			return fail("args", "Write(fid=%d, %d bytes, off=%d) arrived as (fid=%d, %d bytes, off=%d, prefix equal: %v); expected the first min(len, msize-23)=%d bytes", fid, sz, off, c.fid, len(c.data), c.off, len(c.data) <= len(keep) && bytes.Equal(c.data, keep[:len(c.data)]), avail)
		}
		if !bytes.Equal(data, keep) {
			return fail("caller-buffer-modified", "the caller's write buffer was modified")
		}
		if wantErr != nil {
			if !checkErr(err) {
				return false
			}
			break
		}
		if n != ret {
			return fail("result", "S wrote %d; the caller got n=%d err=%v", ret, n, err)
		}
		if ret < sz && err != io.ErrShortWrite {
			return fail("short-write", "S wrote %d of %d bytes; the caller's error is %v, want io.ErrShortWrite", ret, sz, err)
		}
		if ret == sz && err != nil {
			return fail("result", "complete write returned err=%v", err)
		}
		key += fmt.Sprintf("/%d/%d", sz-M, off)
	case "Stat", "WStat":
		fid := c09fid(r)
		d := g.Dir()
		if r.Intn(3) == 0 {
			d.ModTime = d.ModTime.Add(time.Duration(r.Intn(999999999)))
		}
		var err error
		var got p9p.Dir
		if method == "Stat" {
			p.S.next.dir = d
			got, err = p.cli.Stat(ctx, fid)
		} else {
			err = p.cli.WStat(ctx, fid, d)
		}
		c, ok := one()
		if !ok {
			return false
		}
		if c.fid != fid {
			return fail("args", "%s(fid=%d) arrived with fid=%d", method, fid, c.fid)
		}
		if method == "WStat" && !refcodec.EqDir(c.dir, d) {
			return fail("args", "WStat dir %v arrived as %v", d, c.dir)
		}
		if !checkErr(err) {
			return false
		}
		if method == "Stat" && wantErr == nil && !refcodec.EqDir(got, d) {
			return fail("result", "S returned %v, the caller got %v", d, got)
		}
		key += fmt.Sprintf("/%d", len(d.Name)+len(d.UID))
	default: // Clunk, Remove
		fid := c09fid(r)
		var err error
		if method == "Clunk" {
			err = p.cli.Clunk(ctx, fid)
		} else {
			err = p.cli.Remove(ctx, fid)
		}
		c, ok := one()
		if !ok {
			return false
		}
		if c.fid != fid {
			return fail("args", "%s(fid=%d) arrived with fid=%d", method, fid, c.fid)
		}
		if !checkErr(err) {
			return false
		}
		key += fmt.Sprintf("/%d", fid)
	}
	if wantErr != nil {
		key += "/err"
	}
	w.NT(key)
	if w.SampleDue(997) {
		w.Sample(map[string]interface{}{"part": "sequential", "method": method, "case": key, "msize": M, "scripted_error": fmt.Sprint(wantErr)})
	}
	return true
}

// c09Concurrent runs one cell of the concurrent part.
func c09Concurrent(w *mon.W, n, capB int, payload string) {
	desc := fmt.Sprintf("concurrent cell: %d callers, connection buffers %d bytes per direction, payload %s", n, capB, payload)
	if capB == -1 {
		desc = fmt.Sprintf("concurrent cell: %d callers over net.Pipe, payload %s", n, payload)
	}
	w.Case("C09 %s", desc)
	var p *c09pair
	var err error
	for attempt := 0; attempt < 3; attempt++ {
		p, err = newC09Pair(capB, 0)
		if err == nil {
			break
		}
	}
	if err != nil {
		w.Inconclusive("cannot establish the pair: %v", err)
		return
	}
	w.Eval()
	w.Count("concurrent_cells", 1)
	p.S.byUID = true
	M := p.msize
	size := 8
	switch payload {
	case "4k":
		size = 4096
	case "msize":
		size = M - 24
	}
	type res struct {
		ok   bool
		desc string
		done bool
	}
	results := make([]res, n)
	var mu sync.Mutex
	var wg sync.WaitGroup
	ctx := context.Background()
	rounds := 3
	for i := 0; i < n; i++ {
		wg.Add(1)
		go func(i int) {
			defer wg.Done()
			for rd := 0; rd < rounds; rd++ {
				uid := p9p.Fid(1000*rd + i + 1)
				ok, d := true, ""
				switch (i + rd) % 4 {
				case 0:
					buf := make([]byte, size)
					k, err := p.cli.Read(ctx, uid, buf, int64(uid))
					if err != nil || k != size {
						ok, d = false, fmt.Sprintf("Read uid=%d: n=%d err=%v", uid, k, err)
						break
					}
					for j := range buf {
						if buf[j] != byte(int(uid)*7+j) {
							ok, d = false, fmt.Sprintf("Read uid=%d returned another call's data at byte %d", uid, j)
							break
						}
					}
				case 1:
					k, err := p.cli.Write(ctx, uid, make([]byte, size), 0)
					if err != nil || k != size {
						ok, d = false, fmt.Sprintf("Write uid=%d: n=%d err=%v", uid, k, err)
					}
				case 2:
					st, err := p.cli.Stat(ctx, uid)
					if err != nil || st.Name != fmt.Sprintf("uid-%d", uid) {
						ok, d = false, fmt.Sprintf("Stat uid=%d returned %q err=%v", uid, st.Name, err)
					}
				default:
					q, _, err := p.cli.Open(ctx, uid, p9p.OREAD)
					if err != nil || q != uidQid(uid) {
						ok, d = false, fmt.Sprintf("Open uid=%d returned %v err=%v", uid, q, err)
					}
				}
				if !ok {
					mu.Lock()
					results[i] = res{ok: false, desc: d, done: true}
					mu.Unlock()
					return
				}
			}
			mu.Lock()
			results[i] = res{ok: true, done: true}
			mu.Unlock()
		}(i)
	}
	done := make(chan struct{})
	go func() { wg.Wait(); close(done) }()
	q := mon.AwaitQuiesce(done)
	exposed := capB < n*(size+64)
	if q.Hung {
		sig := "C09:hang:" + q.Sites
		if isFlowControlDeadlock(q.Dump) && exposed {
			sig = "C09:flow-control-deadlock"
		}
		w.Violate("hang", sig, fmt.Sprintf("%s: callers have not completed although the process is quiescent; blocked at %s", desc, q.Sites),
			map[string]interface{}{"cell": desc, "goroutines": mon.TrimDump(q.Dump, 12000)})
		w.Count("cells_deadlocked", 1)
		p.cancel()
		p.cend.Close()
		p.send.Close()
		for _, c := range p.closers {
			c.Close()
		}
		return
	}
	if q.Inconclusive {
		w.Inconclusive("watchdog: %s", desc)
		p.close()
		return
	}
	mu.Lock()
	for i, r := range results {
		if !r.ok {
			w.Violate("mismatch", "C09:concurrent-crossed-or-lost-result", fmt.Sprintf("%s: caller %d: %s", desc, i, r.desc), nil)
			mu.Unlock()
			p.close()
			return
		}
	}
	mu.Unlock()
	w.Count("concurrent_calls_own_result", int64(n*rounds))
	p.S.mu.Lock()
	w.Max("max_calls_inside_S", int64(p.S.maxIn))
	p.S.mu.Unlock()
	w.NT(fmt.Sprintf("conc/%d/%d/%s", n, capB, payload))
	if w.SampleDue(13) {
		w.Sample(map[string]interface{}{"part": "concurrent", "callers": n, "buffer_bytes": capB, "payload_bytes": size, "rounds": rounds, "completed": true, "exposed_to_flow_control": exposed})
	}
	p.close()
}

// isFlowControlDeadlock recognises the five-goroutine cycle of the known finding:
// client loop writing, client reader delivering, server writer writing, server loop
// responding, server reader forwarding.
func isFlowControlDeadlock(dump string) bool {
	need := []string{"(*transport).handle(", "(*transport).handle.func", "(*conn).write(", "(*conn).serve(", "(*conn).read("}
	for _, n := range need {
		if !strings.Contains(dump, n) {
			return false
		}
	}
	// the two writers must be inside WriteFcall
	return strings.Count(dump, "(*channel).WriteFcall(") >= 2
}

// c09Abandon: callers are held inside S; one abandons its call (context cancelled); S then
// answers everybody, the abandoned call included. Every other caller must obtain its own
// result, and the session must keep working afterwards.
func c09Abandon(w *mon.W, n int) {
	desc := fmt.Sprintf("abandon cell: %d callers inside S, caller 0 cancels, S answers all", n)
	w.Case("C09 %s", desc)
	p, err := newC09Pair(1<<20, 0)
	if err != nil {
		w.Inconclusive("pair: %v", err)
		return
	}
	defer p.close()
	w.Eval()
	w.Count("abandon_cells", 1)
	p.S.byUID = true
	hold := make(chan struct{})
	p.S.mu.Lock()
	p.S.hold = hold
	p.S.mu.Unlock()
	type res struct {
		name string
		err  error
		done bool
	}
	results := make([]res, n)
	var mu sync.Mutex
	var wg sync.WaitGroup
	cctx, cancel := context.WithCancel(context.Background())
	for i := 0; i < n; i++ {
		wg.Add(1)
		go func(i int) {
			defer wg.Done()
			ctx := context.Background()
			if i == 0 {
				ctx = cctx
			}
			st, err := p.cli.Stat(ctx, p9p.Fid(100+i))
			mu.Lock()
			results[i] = res{st.Name, err, true}
			mu.Unlock()
		}(i)
	}
	if !settle() {
		cancel()
		close(hold)
		return
	}
	cancel() // caller 0 gives up while its call is inside S
	if !settle() {
		close(hold)
		return
	}
	mu.Lock()
	if !results[0].done || results[0].err == nil {
		mu.Unlock()
		close(hold)
		w.Violate("hang", "C09:abandon:cancelled-call-did-not-return", desc+": the cancelled call did not return", nil)
		return
	}
	mu.Unlock()
	close(hold) // S answers all calls now, the abandoned one included
	done := make(chan struct{})
	go func() { wg.Wait(); close(done) }()
	if q := mon.AwaitQuiesce(done); q.Hung {
		w.Violate("hang", "C09:abandon:others-stalled:"+q.Sites, fmt.Sprintf("%s: after the abandoned call was answered late the other callers never complete; blocked at %s", desc, q.Sites), map[string]interface{}{"goroutines": mon.TrimDump(q.Dump, 8000)})
		return
	} else if q.Inconclusive {
		w.Inconclusive("watchdog: %s", desc)
		return
	}
	mu.Lock()
	for i := 1; i < n; i++ {
		if results[i].err != nil || results[i].name != fmt.Sprintf("uid-%d", 100+i) {
			w.Violate("mismatch", "C09:abandon:crossed-or-lost-result", fmt.Sprintf("%s: caller %d got name=%q err=%v", desc, i, results[i].name, results[i].err), nil)
			mu.Unlock()
			return
		}
	}
	mu.Unlock()
	// the session still works
	p.S.mu.Lock()
	p.S.hold = nil
	p.S.mu.Unlock()
	fin := make(chan struct{})
	var st p9p.Dir
	var serr error
	go func() { st, serr = p.cli.Stat(context.Background(), 999); close(fin) }()
	if q := mon.AwaitQuiesce(fin); q.Hung {
		w.Violate("hang", "C09:abandon:session-dead-afterwards:"+q.Sites, desc+": a later call never returns; blocked at "+q.Sites, nil)
		return
	}
	if serr != nil || st.Name != "uid-999" {
		w.Violate("mismatch", "C09:abandon:later-call", fmt.Sprintf("%s: a later call returned %q err=%v", desc, st.Name, serr), nil)
		return
	}
	w.NT(fmt.Sprintf("abandon/%d", n))
}

// c09Wrap: one call stays pending inside S while more than 65535 further calls are made
// on the same client session; every one of them, and finally the pending one, must get its
// own result. The pending call is the one issued when the tag counter wraps (the 65535th).
func c09Wrap(w *mon.W) {
	desc := "wrap cell: three calls S refuses, then the 65535th call stays pending inside S while 66000 more calls are made"
	w.Case("C09 %s", desc)
	p, err := newC09Pair(1<<20, 0)
	if err != nil {
		w.Inconclusive("pair: %v", err)
		return
	}
	defer p.close()
	w.Eval()
	w.Count("wrap_cells", 1)
	p.S.byUID = true
	ctx := context.Background()
	call := func(uid int) bool {
		q, _, err := p.cli.Open(ctx, p9p.Fid(uid), p9p.OREAD)
		if err != nil || q != uidQid(p9p.Fid(uid)) {
			w.Violate("mismatch", "C09:wrap:crossed-or-lost-result", fmt.Sprintf("%s: call #%d returned %v err=%v", desc, uid, q, err), nil)
			return false
		}
		return true
	}
	fin := make(chan struct{})
	ok := true
	var pendErr error
	var pendQ p9p.Qid
	pendDone := make(chan struct{})
	hold := make(chan struct{})
	go func() {
		defer close(fin)
		// the history starts with calls that S answers with an error: nothing of them may linger
		p.S.mu.Lock()
		p.S.errFid = 4000000
		p.S.mu.Unlock()
		for k := 0; k < 3; k++ {
			if _, _, err := p.cli.Open(ctx, 4000000, p9p.OREAD); err == nil || !strings.Contains(err.Error(), "refused-4000000") {
				w.Violate("mismatch", "C09:wrap:error-result", fmt.Sprintf("%s: a call S refuses returned err=%v", desc, err), nil)
				ok = false
				return
			}
		}
		// 65534 calls in all before the pending one, so that it is the call that receives tag 0
		for i := 1; i <= 65534-3 && ok; i++ {
			ok = call(i)
		}
		if !ok {
			return
		}
		p.S.mu.Lock()
		p.S.hold, p.S.holdFid = hold, 65535
		p.S.mu.Unlock()
		go func() {
			pendQ, _, pendErr = p.cli.Open(ctx, 65535, p9p.OREAD)
			close(pendDone)
		}()
		// wait until the pending call is inside S
		for k := 0; k < 1000000; k++ {
			p.S.mu.Lock()
			in := p.S.inCall
			p.S.mu.Unlock()
			if in > 0 {
				break
			}
			runtime.Gosched()
		}
		for i := 70000; i < 70000+66000 && ok; i++ {
			ok = call(i)
		}
	}()
	q := mon.AwaitQuiesceLong(fin, 20*time.Minute)
	if q.Hung {
		w.Violate("hang", "C09:wrap:hang:"+q.Sites, fmt.Sprintf("%s: the callers stall; blocked at %s", desc, q.Sites), map[string]interface{}{"goroutines": mon.TrimDump(q.Dump, 8000)})
		close(hold)
		return
	}
	if q.Inconclusive || !ok {
		close(hold)
		return
	}
	close(hold)
	if q := mon.AwaitQuiesce(pendDone); q.Hung {
		w.Violate("hang", "C09:wrap:pending-call-lost", desc+": the long-pending call never returns although S answered it; blocked at "+q.Sites, nil)
		return
	}
	if pendErr != nil || pendQ != uidQid(65535) {
		w.Violate("mismatch", "C09:wrap:crossed-or-lost-result", fmt.Sprintf("%s: the long-pending call returned %v err=%v", desc, pendQ, pendErr), nil)
		return
	}
	w.Count("wrap_calls", 65535+66000)
	w.NT("wrap")
}

// c09DeadlineThenPlain: both ends of the connection honour write deadlines against a virtual
// clock. A call whose context has a deadline goes through; the clock then moves past that
// deadline (but stays within the library's 30 s default) and calls without a deadline must
// still reach S and come back with S's result.
func c09DeadlineThenPlain(w *mon.W, no int) {
	w.Case("C09 deadline-then-plain #%d", no)
	p, err := newC09Pair(1<<20, 0)
	if err != nil {
		w.Inconclusive("pair: %v", err)
		return
	}
	defer p.close()
	w.Eval()
	w.Count("deadline_then_plain", 1)
	var skew int64
	clock := func() time.Time { return time.Now().Add(time.Duration(atomic.LoadInt64(&skew))) }
	p.cend.Clock, p.send.Clock = clock, clock
	p.S.mu.Lock()
	p.S.byUID = true
	p.S.mu.Unlock()
	dctx, cancel := context.WithDeadline(context.Background(), time.Now().Add(10*time.Second))
	defer cancel()
	st, derr := p.cli.Stat(dctx, 41)
	if derr != nil || st.Name != "uid-41" {
		if dctx.Err() != nil {
			w.Inconclusive("the real 10 s deadline was missed")
			return
		}
		w.Violate("mismatch", "C09:deadline-call", fmt.Sprintf("Stat with a deadline context returned %v, %q", derr, st.Name), nil)
		return
	}
	if no%2 == 1 {
		cancel()
	}
	atomic.StoreInt64(&skew, int64(15*time.Second))
	for k := 0; k < 3; k++ {
		uid := p9p.Fid(42 + k)
		var st p9p.Dir
		var err error
		fin := make(chan struct{})
		go func() { st, err = p.cli.Stat(context.Background(), uid); close(fin) }()
		q := mon.AwaitQuiesce(fin)
		if q.Hung {
			w.Violate("hang", "C09:plain-call-after-deadline-hangs:"+q.Sites, "a call without deadline, made after an earlier call's deadline passed, does not return; blocked at "+q.Sites, nil)
			return
		}
		if !q.Done {
			w.Inconclusive("watchdog")
			return
		}
		if err != nil || st.Name != fmt.Sprintf("uid-%d", uid) {
			w.Violate("mismatch", "C09:plain-call-after-deadline", fmt.Sprintf("plain call #%d made after an earlier call's deadline had passed: S's result did not come back: err=%v name=%q (calls that reached S: %d)", k+1, err, st.Name, len(p.S.takeCalls())), nil)
			return
		}
	}
	w.NT(fmt.Sprintf("deadline/%d", no%2))
}

// c09ManyBlocked: n calls are blocked inside S at the same time; one more call (which S
// serves at once) must still get through, and then everybody gets its own result.
func c09ManyBlocked(w *mon.W, n int) {
	w.Case("C09 many-blocked n=%d", n)
	p, err := newC09Pair(1<<21, 0)
	if err != nil {
		w.Inconclusive("pair: %v", err)
		return
	}
	defer p.close()
	w.Eval()
	w.Count("many_blocked_cells", 1)
	hold := make(chan struct{})
	released := false
	defer func() {
		if !released {
			close(hold)
		}
	}()
	p.S.mu.Lock()
	p.S.byUID = true
	p.S.hold = hold
	p.S.holdFid = 0
	p.S.mu.Unlock()
	type res struct {
		name string
		err  error
	}
	results := make([]res, n)
	var wg sync.WaitGroup
	for i := 0; i < n; i++ {
		wg.Add(1)
		go func(i int) {
			defer wg.Done()
			st, err := p.cli.Stat(context.Background(), p9p.Fid(1000+i))
			results[i] = res{st.Name, err}
		}(i)
	}
	if !settle() {
		w.Inconclusive("watchdog")
		return
	}
	p.S.mu.Lock()
	in := p.S.inCall
	p.S.mu.Unlock()
	w.Max("max_calls_blocked_in_S", int64(in))
	if in != n {
		w.Violate("mismatch", "C09:calls-not-delivered", fmt.Sprintf("%d calls were issued concurrently, only %d are inside S at quiescence", n, in), nil)
		return
	}
	// one more call, not held: only the calls already inside S wait on hold
	p.S.mu.Lock()
	p.S.hold = nil
	p.S.mu.Unlock()
	var st p9p.Dir
	var serr error
	fin := make(chan struct{})
	go func() { st, serr = p.cli.Stat(context.Background(), 7); close(fin) }()
	q := mon.AwaitQuiesce(fin)
	if q.Hung {
		w.Violate("hang", "C09:call-not-delivered-while-many-blocked", fmt.Sprintf("with %d calls blocked inside S one more call is never delivered (S would serve it at once); blocked at %s", n, q.Sites), nil)
		return
	}
	if !q.Done {
		w.Inconclusive("watchdog")
		return
	}
	if serr != nil || st.Name != "uid-7" {
		w.Violate("mismatch", "C09:concurrent-result", fmt.Sprintf("extra call returned %v %q", serr, st.Name), nil)
		return
	}
	released = true
	close(hold)
	done := make(chan struct{})
	go func() { wg.Wait(); close(done) }()
	if q := mon.AwaitQuiesce(done); !q.Done {
		if q.Hung {
			w.Violate("hang", "C09:blocked-calls-never-return", fmt.Sprintf("%d calls released inside S do not all return; blocked at %s", n, q.Sites), nil)
		}
		return
	}
	for i, r := range results {
		if r.err != nil || r.name != fmt.Sprintf("uid-%d", 1000+i) {
			w.Violate("mismatch", "C09:concurrent-result", fmt.Sprintf("blocked call #%d returned %v %q", i, r.err, r.name), nil)
			return
		}
	}
	w.Count("concurrent_calls_own_result", int64(n))
	w.NT(fmt.Sprintf("manyblocked/%d", n))
}
