package props

import (
	"context"
	"fmt"
	"strings"
	"time"

	p9p "github.com/frobnitzem/go-p9p"

	"verifharness/gen"
	"verifharness/mon"
	"verifharness/refcodec"
	"verifharness/wire"
)

// C03: inbound framing stays synchronised, frame-isolated and crash-free.
func init() {
	register(&mon.Spec{
		ID:    "C03",
		Level: "exploration",
		Rule: "scripted byte streams of 1-8 frames read through Channel.ReadFcall over an in-memory conn: frame classes {valid of all 27 kinds, exactly msize, oversize by k in {1,2,3,4,5,11,msize,2*msize,rnd}, " +
			"body truncated by 1-8 bytes (prefix consistent), body extended, hostile inner length fields, length prefix 0-7, unknown type byte, stream cut mid-frame}; msize in {32,64,256,4096,65536} reached directly or by SetMSize shrink/grow, and changed by SetMSize between two reads of one stream; " +
			"chunkings {1 byte, split inside the prefix, frame-straddling PRNG, whole stream}. Oracle: each ReadFcall result must equal the isolated expectation computed from that frame's bytes and msize alone by the reference codec " +
			"(message / Overflow==len-msize / error) and must equal the result of reading the same frame on a fresh channel (frame isolation); later well-formed frames must still be delivered. " +
			"non-trivial = stream has an abnormal frame followed by a normal one, or a short frame after adversarial residue; distinct by the sequence of (frame class, length delta)",
		Assumptions: []string{
			"a length prefix of 0-3 is taken to be a frame consisting of the prefix alone: the next frame starts right after those four bytes",
			"for bodies the reference codec rejects for reasons other than being too short (trailing bytes, inconsistent stat sizes) either an error or a message is accepted, but it must be the same on a fresh channel",
		},
		Shards:   shards(8, 16),
		Timeout:  timeouts(12*time.Minute, 90*time.Minute),
		MinEvals: 500,
		Required: []string{"midstream_setmsize", "class:valid", "class:exact", "class:oversize", "class:truncated", "class:prefix<4", "class:prefix4-6", "class:badtype", "class:tailcut", "class:tailcut-oversize", "class:tread-boundary", "two_channel_interleavings", "class:hostile", "after_abnormal_delivered", "residue_probes"},
		Run:      runC03,
	})
}

type outcome struct {
	kind string // "msg" | "overflow" | "err"
	msg  *p9p.Fcall
	over int
	err  string
}

func (o outcome) String() string {
	switch o.kind {
	case "msg":
		return "msg " + refcodec.Describe(o.msg)
	case "overflow":
		return fmt.Sprintf("overflow %d", o.over)
	}
	return "err " + o.err
}

func sameOutcome(a, b outcome) bool {
	if a.kind != b.kind {
		return false
	}
	switch a.kind {
	case "msg":
		return refcodec.EqFcall(a.msg, b.msg)
	case "overflow":
		return a.over == b.over
	}
	return true
}

type c03frame struct {
	class  string
	bytes  []byte
	expect string // "msg" | "overflow" | "err" | "lenient" (err or the given message) | "any" (only crash/isolation judged)
	msg    *p9p.Fcall
	over   int
	fatal  bool // stream position unspecified afterwards
	cut    bool // stream ends inside this frame
	m      int  // msize in force when this frame is read
}

func setPrefix(b []byte, n uint32) {
	b[0], b[1], b[2], b[3] = byte(n), byte(n>>8), byte(n>>16), byte(n>>24)
}

func clampTread(fc *p9p.Fcall, M int) *p9p.Fcall {
	if tr, ok := fc.Message.(p9p.MessageTread); ok {
		if uint64(tr.Count)+11 > uint64(M) {
			c := *fc
			tr.Count = uint32(M - 11)
			c.Message = tr
			return &c
		}
	}
	return fc
}

// fitting returns a valid message whose frame is at most max bytes (and at least min).
func fitting(g *gen.G, min, max int) (*p9p.Fcall, []byte) {
	for try := 0; try < 30; try++ {
		fc := g.AnyFcall()
		fr, err := refcodec.Frame(fc)
		if err == nil && len(fr) <= max && len(fr) >= min {
			return fc, fr
		}
	}
	// sized exactly with an Rerror string / data payload
	n := min
	if n < 11 {
		n = 11
	}
	if n > max {
		n = max
	}
	if n < 9 {
		fc := &p9p.Fcall{Type: p9p.Rclunk, Tag: g.Tag(), Message: p9p.MessageRclunk{}}
		return fc, refcodec.MustFrame(fc)
	}
	var fc *p9p.Fcall
	if n-9 <= 65535 {
		fc = &p9p.Fcall{Type: p9p.Rerror, Tag: g.Tag(), Message: p9p.MessageRerror{Ename: g.StrN(n - 9)}}
	} else {
		fc = &p9p.Fcall{Type: p9p.Rread, Tag: g.Tag(), Message: p9p.MessageRread{Data: g.DataN(n - 11)}}
	}
	return fc, refcodec.MustFrame(fc)
}

// sized returns a valid frame of exactly n bytes (n >= 11).
func sized(g *gen.G, n int) (*p9p.Fcall, []byte) {
	var fc *p9p.Fcall
	switch {
	case n >= 23 && g.R.Intn(2) == 0:
		fc = &p9p.Fcall{Type: p9p.Twrite, Tag: g.Tag(), Message: p9p.MessageTwrite{Fid: p9p.Fid(g.U32()), Offset: g.U64(), Data: g.DataN(n - 23)}}
	case n-9 <= 65535 && g.R.Intn(2) == 0:
		fc = &p9p.Fcall{Type: p9p.Rerror, Tag: g.Tag(), Message: p9p.MessageRerror{Ename: g.StrN(n - 9)}}
	default:
		fc = &p9p.Fcall{Type: p9p.Rread, Tag: g.Tag(), Message: p9p.MessageRread{Data: g.DataN(n - 11)}}
	}
	return fc, refcodec.MustFrame(fc)
}

func genFrameC03(w *mon.W, g *gen.G, M int, last bool) c03frame {
	r := w.Rng
	switch c := r.Intn(20); {
	case c < 7: // valid, fits
		if r.Intn(8) == 0 && M >= 23 {
			// a Tread whose count lies around what a reply can carry at this msize
			cnt := uint32(M - 14 + r.Intn(18))
			if r.Intn(6) == 0 {
				cnt = ^uint32(0) - uint32(r.Intn(12))
			}
			fc := &p9p.Fcall{Type: p9p.Tread, Tag: g.Tag(), Message: p9p.MessageTread{Fid: p9p.Fid(g.U32()), Offset: g.U64(), Count: cnt}}
			return c03frame{class: "tread-boundary", bytes: refcodec.MustFrame(fc), expect: "msg", msg: clampTread(fc, M)}
		}
		fc, fr := fitting(g, 7, M)
		return c03frame{class: "valid", bytes: fr, expect: "msg", msg: clampTread(fc, M)}
	case c < 8: // exactly msize
		fc, fr := sized(g, M)
		return c03frame{class: "exact", bytes: fr, expect: "msg", msg: fc}
	case c < 11: // oversize by k
		ks := []int{1, 2, 3, 4, 5, 11, M, 2 * M, 1 + r.Intn(64)}
		k := ks[r.Intn(len(ks))]
		if r.Intn(3) == 0 {
			// oversize garbage body
			b := make([]byte, M+k)
			r.Read(b[4:])
			setPrefix(b, uint32(M+k))
			return c03frame{class: "oversize", bytes: b, expect: "overflow", over: k}
		}
		_, fr := sized(g, M+k)
		return c03frame{class: "oversize", bytes: fr, expect: "overflow", over: k}
	case c < 13: // truncated body: the message needs more bytes than the frame holds
		for try := 0; try < 20; try++ {
			fc, fr := fitting(g, 8, M)
			t := 1 + r.Intn(8)
			if len(fr)-t < 7 {
				t = len(fr) - 7
			}
			if t <= 0 {
				continue
			}
			b := append([]byte{}, fr[:len(fr)-t]...)
			setPrefix(b, uint32(len(b)))
			if _, err := refcodec.Decode(b[4:]); err != refcodec.ErrShort {
				continue // cutting happened to leave a decodable/other message (e.g. data count) — try again
			}
			_ = fc
			return c03frame{class: "truncated", bytes: b, expect: "err"}
		}
		b := []byte{7, 0, 0, 0, byte(p9p.Tclunk), 1, 0}
		return c03frame{class: "truncated", bytes: b, expect: "err"}
	case c < 14: // extended body (trailing bytes): lenient
		fc, fr := fitting(g, 7, M-8)
		if len(fr) > M-8 {
			return c03frame{class: "valid", bytes: fr, expect: "msg", msg: clampTread(fc, M)}
		}
		ext := make([]byte, 1+r.Intn(8))
		r.Read(ext)
		b := append(append([]byte{}, fr...), ext...)
		setPrefix(b, uint32(len(b)))
		return c03frame{class: "extended", bytes: b, expect: "lenient", msg: clampTread(fc, M)}
	case c < 16: // hostile inner length fields
		fc, _ := fitting(g, 9, M)
		body, fields, _ := refcodec.EncodeMap(fc)
		if len(fields) == 0 {
			fc = &p9p.Fcall{Type: p9p.Rerror, Tag: g.Tag(), Message: p9p.MessageRerror{Ename: g.StrN(r.Intn(9))}}
			body, fields, _ = refcodec.EncodeMap(fc)
		}
		f := fields[r.Intn(len(fields))]
		vals := []uint32{0, 1, f.Val + 1, f.Val - 1, 0x7FFF, 0xFFFE, 0xFFFF, 1 << 31, 0xFFFFFFFF, r.Uint32()}
		v := vals[r.Intn(len(vals))]
		b := append([]byte{0, 0, 0, 0}, body...)
		for i := 0; i < f.Width; i++ {
			b[4+f.Off+i] = byte(v >> (8 * uint(i)))
		}
		setPrefix(b, uint32(len(b)))
		fr := c03frame{class: "hostile", bytes: b, expect: "any"}
		if rd, err := refcodec.Decode(b[4:]); err == nil {
			fr.expect, fr.msg = "msg", clampTread(rd, M)
		} else if err == refcodec.ErrShort {
			fr.expect = "err"
		}
		return fr
	case c < 17: // length prefix 0..7 without the bytes a message needs
		p := r.Intn(8)
		if p < 4 {
			b := make([]byte, 4)
			setPrefix(b, uint32(p))
			// the four prefix bytes are the whole "frame": whatever follows is the next frame
			return c03frame{class: "prefix<4", bytes: b, expect: "err"}
		}
		b := make([]byte, p)
		r.Read(b[4:])
		if p > 4 {
			b[4] = byte(gen.Kinds[r.Intn(len(gen.Kinds))])
		}
		setPrefix(b, uint32(p))
		if p == 7 {
			// header only: valid for the bodiless replies, an error for everything else
			if rd, err := refcodec.Decode(b[4:]); err == nil {
				return c03frame{class: "valid", bytes: b, expect: "msg", msg: rd}
			}
			return c03frame{class: "truncated", bytes: b, expect: "err"}
		}
		return c03frame{class: "prefix4-6", bytes: b, expect: "err"}
	case c < 18: // unknown type byte
		_, fr := fitting(g, 7, M)
		b := append([]byte{}, fr...)
		bad := []byte{0, 1, 99, 106, 128, 200, 255}
		b[4] = bad[r.Intn(len(bad))]
		return c03frame{class: "badtype", bytes: b, expect: "err"}
	default:
		if !last {
			fc, fr := fitting(g, 7, M)
			return c03frame{class: "valid", bytes: fr, expect: "msg", msg: clampTread(fc, M)}
		}
		// stream ends inside this frame
		_, fr := fitting(g, 8, M)
		if r.Intn(2) == 0 {
			// ... which is an oversize one: the end falls in the part within msize or in the excess that is being discarded
			ks := []int{1, 4, 5, 6, 11, 64, M, 2 * M}
			k := ks[r.Intn(len(ks))]
			_, fr = sized(g, M+k)
			cut := 1 + r.Intn(len(fr)-1)
			if k > 1 && r.Intn(3) != 0 {
				cut = M + r.Intn(k) // 0..k-1 bytes of the excess arrive
			}
			return c03frame{class: "tailcut-oversize", bytes: append([]byte{}, fr[:cut]...), expect: "err", cut: true, fatal: true}
		}
		cut := 1 + r.Intn(len(fr)-1)
		return c03frame{class: "tailcut", bytes: append([]byte{}, fr[:cut]...), expect: "err", cut: true, fatal: true}
	}
}

func readOne(ch p9p.Channel) outcome {
	var fc p9p.Fcall
	err := ch.ReadFcall(context.Background(), &fc)
	if err == nil {
		c := fc
		return outcome{kind: "msg", msg: &c}
	}
	if o := p9p.Overflow(err); o != 0 {
		return outcome{kind: "overflow", over: o}
	}
	return outcome{kind: "err", err: err.Error()}
}

func newChanC03(r interface{ Intn(int) int }, conn *wire.Script, M int) (p9p.Channel, string) {
	switch r.Intn(4) {
	case 0: // created larger, then shrunk (what version negotiation does)
		ch := p9p.NewChannel(conn, 65536+r.Intn(3)*4096)
		ch.SetMSize(M)
		return ch, "shrunk"
	case 1: // created smaller, then grown
		ch := p9p.NewChannel(conn, 24+r.Intn(64))
		ch.SetMSize(M)
		return ch, "grown"
	}
	return p9p.NewChannel(conn, M), "direct"
}

// twoChannelsC03: the outcome of a read on one channel depends only on that channel's bytes,
// also when a frame of it arrives in two pieces and another channel of the same process
// reads a whole frame in between. The cut runs over every offset of the first 12 bytes.
func twoChannelsC03(w *mon.W, g *gen.G, no int) {
	M := []int{256, 4096}[no%2]
	g.MaxStr, g.MaxData, g.MaxList = 40, 200, 6
	fa, fra := fitting(g, 12, M)
	fb, frb := fitting(g, 8, M)
	for len(frb) == len(fra) {
		fb, frb = fitting(g, 8, M)
	}
	for cut := 1; cut < 12 && cut < len(fra); cut++ {
		w.Case("C03 two channels #%d: frame A (%d bytes) cut at %d, frame B (%d bytes) read in between", no, len(fra), cut, len(frb))
		w.Eval()
		w.Count("two_channel_interleavings", 1)
		ca, sa := wire.BPipe(1 << 16)
		cb, sb := wire.BPipe(1 << 16)
		chA, chB := p9p.NewChannel(sa, M), p9p.NewChannel(sb, M)
		var ra outcome
		done := make(chan struct{})
		go func() { ra = readOne(chA); close(done) }()
		ca.Write(fra[:cut])
		if !settle() {
			w.Inconclusive("watchdog")
			ca.Close()
			cb.Close()
			return
		}
		cb.Write(frb)
		rb := readOne(chB)
		ca.Write(fra[cut:])
		if q := mon.AwaitQuiesce(done); !q.Done {
			if q.Hung {
				w.Violate("mismatch", "C03:two-channels:read-never-returns", fmt.Sprintf("channel A's frame arrived completely (cut at byte %d, another channel read a frame in between) but its read does not return", cut), nil)
			}
			ca.Close()
			cb.Close()
			return
		}
		if rb.kind != "msg" || !refcodec.EqFcall(rb.msg, clampTread(fb, M)) {
			w.Violate("mismatch", "C03:two-channels", fmt.Sprintf("channel B delivered [%s], want %s", rb, refcodec.Describe(fb)), nil)
		}
		if ra.kind != "msg" || !refcodec.EqFcall(ra.msg, clampTread(fa, M)) {
			w.Violate("mismatch", "C03:two-channels", fmt.Sprintf("channel A's frame arrived in two pieces (cut at byte %d) while channel B read a %d-byte frame in between: A delivered [%s], want %s", cut, len(frb), ra, refcodec.Describe(fa)), nil)
		}
		ca.Close()
		cb.Close()
		w.NT(fmt.Sprintf("two/%d/%d/%d", no, cut, len(frb)))
	}
}

func runC03(w *mon.W) {
	total := w.Scale(9000, 1500000)
	g := gen.Small(w.Rng)
	for i := 0; i < w.Scale(40, 4000); i++ {
		if w.Mine(i) {
			twoChannelsC03(w, gen.Small(w.Rng), i)
		}
	}
	msizes := []int{32, 64, 256, 4096, 65536}
	for i := 0; i < total; i++ {
		if !w.Mine(i) {
			continue
		}
		M := msizes[w.Rng.Intn(len(msizes))]
		if M <= 64 {
			g.MaxStr, g.MaxData, g.MaxList = 12, 24, 3
		} else {
			g.MaxStr, g.MaxData, g.MaxList = 300, 1200, 20
		}
		n := 1 + w.Rng.Intn(8)
		var frames []c03frame
		var stream []byte
		// optionally the msize changes in mid-stream (SetMSize between two reads)
		switchAt, M2 := -1, M
		if n > 1 && w.Rng.Intn(4) == 0 {
			switchAt = 1 + w.Rng.Intn(n-1)
			M2 = msizes[w.Rng.Intn(len(msizes))]
		}
		curM := M
		for j := 0; j < n; j++ {
			if j == switchAt {
				curM = M2
				if curM <= 64 {
					g.MaxStr, g.MaxData, g.MaxList = 12, 24, 3
				} else {
					g.MaxStr, g.MaxData, g.MaxList = 300, 1200, 20
				}
			}
			f := genFrameC03(w, g, curM, j == n-1)
			f.m = curM
			frames = append(frames, f)
			stream = append(stream, f.bytes...)
			if f.cut {
				break
			}
		}
		// adversarial residue: sometimes put a long frame full of plausible bytes first
		if w.Rng.Intn(4) == 0 && M >= 64 {
			fill := []byte{byte(p9p.Rclunk), 0x6B, 0, 1, 2}[w.Rng.Intn(5)]
			d := make([]byte, M-23)
			for k := range d {
				d[k] = fill
			}
			fc := &p9p.Fcall{Type: p9p.Twrite, Tag: 0x6B6B, Message: p9p.MessageTwrite{Fid: 0x6B6B6B6B, Offset: 0x6B6B6B6B6B6B6B6B, Data: d}}
			fr := refcodec.MustFrame(fc)
			frames = append([]c03frame{{class: "valid", bytes: fr, expect: "msg", msg: fc, m: M}}, frames...)
			stream = append(append([]byte{}, fr...), stream...)
			w.Count("residue_probes", 1)
		}
		// chunking
		var chunks []int
		chunkName := ""
		switch w.Rng.Intn(5) {
		case 0:
			chunks, chunkName = []int{1}, "1-byte"
		case 1:
			chunkName = "split-prefix"
			for range frames {
				chunks = append(chunks, 1+w.Rng.Intn(3), 0)
			}
			// deliver k bytes of each prefix then the rest of that frame
			chunks = nil
			for _, f := range frames {
				k := 1 + w.Rng.Intn(3)
				if k >= len(f.bytes) {
					chunks = append(chunks, len(f.bytes))
					continue
				}
				chunks = append(chunks, k, len(f.bytes)-k)
			}
			chunks = append(chunks, 0)
		case 2, 3:
			chunkName = "prng"
			for k := 0; k < 64; k++ {
				chunks = append(chunks, 1+w.Rng.Intn(2*M))
			}
		default:
			chunks, chunkName = []int{0}, "whole"
		}
		conn := &wire.Script{In: stream, Chunks: chunks}
		ch, how := newChanC03(w.Rng, conn, M)

		var classes []string
		for _, f := range frames {
			classes = append(classes, fmt.Sprintf("%s%+d", f.class, len(f.bytes)-f.m))
		}
		caseDesc := fmt.Sprintf("msize=%d (->%d before frame %d) chan=%s chunks=%s frames=[%s] stream=%s", M, M2, switchAt, how, chunkName, strings.Join(classes, " "), hexHead(stream))
		w.Case("%s", caseDesc)
		w.Eval()

		judged := true
		abnormalSeen := false
		nontrivial := false
		inForce := M
		var prevGot outcome
		var prevWant *p9p.Fcall
		for j, f := range frames {
			if f.m != inForce {
				ch.SetMSize(f.m)
				inForce = f.m
				w.Count("midstream_setmsize", 1)
			}
			got := readOne(ch)
			w.Count("class:"+f.class, 1)
			w.Count("frames_read", 1)
			// the message delivered for the previous frame must not change when the next frame is read
			if prevWant != nil && prevGot.kind == "msg" && !refcodec.EqFcall(prevGot.msg, prevWant) {
				w.Violate("mismatch", "C03:message-changed-by-next-read", fmt.Sprintf("the message delivered for frame %d changed when frame %d was read: now %s, was %s; %s", j-1, j, refcodec.Describe(prevGot.msg), refcodec.Describe(prevWant), caseDesc), nil)
			}
			prevGot, prevWant = got, nil
			if got.kind == "msg" && f.expect == "msg" && refcodec.EqFcall(got.msg, f.msg) {
				prevWant = f.msg
			}
			if judged {
				judgeC03(w, f, got, f.m, j, caseDesc)
				if f.expect != "msg" && !f.fatal {
					// isolation: the same frame alone on a fresh channel
					fconn := &wire.Script{In: f.bytes}
					fch := p9p.NewChannel(fconn, f.m)
					alone := readOne(fch)
					if !sameOutcome(alone, got) {
						w.Violate("mismatch", "C03:not-isolated:"+f.class,
							fmt.Sprintf("frame %d (%s %s) gave [%s] after earlier traffic but [%s] on a fresh channel; %s", j, f.class, hexHead(f.bytes), got, alone, caseDesc), nil)
					}
					w.Count("isolation_comparisons", 1)
				}
				if abnormalSeen && f.expect == "msg" && got.kind == "msg" {
					w.Count("after_abnormal_delivered", 1)
					nontrivial = true
				}
				if f.expect != "msg" {
					abnormalSeen = true
				}
			}
			if f.fatal {
				judged = false
			}
		}
		if judged {
			// the stream is exhausted: the next read must be an error, not a message
			if got := readOne(ch); got.kind == "msg" {
				w.Violate("mismatch", "C03:message-after-end", fmt.Sprintf("a message was delivered after the end of the stream: %s; %s", got, caseDesc), nil)
			}
		}
		if nontrivial || (len(frames) > 1 && frames[0].class == "valid" && len(frames[0].bytes) == M) {
			w.NT(fmt.Sprintf("%d/%s", M, strings.Join(classes, ",")))
		}
		if w.SampleDue(101) {
			w.Sample(map[string]interface{}{"msize": M, "channel": how, "chunking": chunkName, "frames": classes, "stream_head": hexHead(stream)})
		}
	}
}

func judgeC03(w *mon.W, f c03frame, got outcome, M, j int, caseDesc string) {
	bad := func(what, want string) {
		w.Violate("mismatch", "C03:"+what+":"+f.class,
			fmt.Sprintf("frame %d (%s, %d bytes, msize %d): got [%s], want %s; frame=%s; %s", j, f.class, len(f.bytes), M, got, want, hexHead(f.bytes), caseDesc), nil)
	}
	switch f.expect {
	case "msg":
		if got.kind != "msg" {
			bad("valid-frame-not-delivered", "message "+refcodec.Describe(f.msg))
		} else if !refcodec.EqFcall(got.msg, f.msg) {
			bad("wrong-message", "message "+refcodec.Describe(f.msg))
		}
	case "overflow":
		if got.kind != "overflow" || got.over != f.over {
			bad("overflow", fmt.Sprintf("overflow of exactly %d", f.over))
		}
	case "err":
		if got.kind == "msg" {
			bad("bad-frame-accepted", "an error")
		}
		if got.kind == "overflow" {
			bad("bad-frame-overflow", "a non-overflow error")
		}
	case "lenient":
		if got.kind == "msg" && !refcodec.EqFcall(got.msg, f.msg) {
			bad("wrong-message", "an error or "+refcodec.Describe(f.msg))
		}
		if got.kind == "overflow" {
			bad("bad-frame-overflow", "an error or the message")
		}
	case "any":
		if got.kind == "overflow" {
			bad("bad-frame-overflow", "a message or a non-overflow error")
		}
	}
}
