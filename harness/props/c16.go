package props

import (
	"context"
	"fmt"
	"github.com/frobnitzem/go-p9p/ramfs"
	"path"
	"strings"
	"time"
	"verifharness/refcodec"

	p9p "github.com/frobnitzem/go-p9p"

	"verifharness/mon"
)

// C16: path helpers accept exactly the safe names and never climb above root.
func init() {
	register(&mon.Spec{
		ID:    "C16",
		Level: "exploration",
		Rule: "ValidPath / WalkName / CreateName / NormalizePath / ToWalk compared with an independent stepwise resolver: EXHAUSTIVE over all name lists of length 0-4 over the alphabet " +
			`{"", ".", "..", "a", "b.c", "..a", "...", "a/b", "/", "a\\b", "\\"} (16105 lists) x directories {"/", "/a", "/a/b", "/a/b/c"}; plus PRNG lists up to length 17 over the same alphabet extended with random UTF-8/NUL names and deeper directories. ` +
			"plus one end-to-end probe: every name of the alphabet offered as a create name to ramfs through the session - an unsafe one must be refused and leave the directory listing unchanged. " +
			"non-trivial = the list contains at least one special form; distinct by (dir, list)",
		Assumptions: []string{
			"directories are given in canonical internal form (the property's precondition)",
			"the bounded space is enumerated completely (exhaustive:true refers to it); longer lists are sampled",
		},
		Shards:   shards(8, 16),
		Timeout:  timeouts(12*time.Minute, 90*time.Minute),
		MinEvals: 16105 * 4,
		Required: []string{"validpath_accept", "validpath_reject", "walkname_accept", "walkname_reject_climb", "createname_accept", "createname_reject", "normalize_checked", "towalk_checked", "exhaustive_lists", "refused_create_probes"},
		Run:      runC16,
	})
}

var c16alpha = []string{"", ".", "..", "a", "b.c", "..a", "...", "a/b", "/", "a\\b", "\\"}

func hasSep(s string) bool { return strings.ContainsAny(s, "/\\") }

// refValid: -1 if invalid, else number of leading "..".
func refValid(l []string) int {
	n := 0
	for i, s := range l {
		if s == "" || s == "." || hasSep(s) {
			return -1
		}
		if s == ".." {
			if n != i {
				return -1
			}
			n++
		}
	}
	return n
}

func splitDir(d string) []string {
	if d == "/" {
		return nil
	}
	return strings.Split(strings.TrimPrefix(d, "/"), "/")
}

// refResolve resolves names stepwise from the stack; ok=false if it would climb above the root.
func refResolve(stack []string, names []string, skipNoop bool) ([]string, bool) {
	st := append([]string{}, stack...)
	for _, s := range names {
		switch {
		case skipNoop && (s == "" || s == "."):
		case s == "..":
			if len(st) == 0 {
				return nil, false
			}
			st = st[:len(st)-1]
		default:
			st = append(st, s)
		}
	}
	return st, true
}

func refNormalize(l []string) ([]string, int) {
	var out []string
	lead := 0
	for _, s := range l {
		if hasSep(s) {
			return nil, -1
		}
	}
	for _, s := range l {
		if s == "" || s == "." {
			continue
		}
		if s == ".." {
			if len(out) > lead {
				out = out[:len(out)-1]
				continue
			}
			lead++
		}
		out = append(out, s)
	}
	return out, lead
}

func eqStrs(a, b []string) bool {
	if len(a) != len(b) {
		return false
	}
	for i := range a {
		if a[i] != b[i] {
			return false
		}
	}
	return true
}

func canonical(p string) bool {
	return path.IsAbs(p) && path.Clean(p) == p && !strings.Contains(p, "\\")
}

func special(l []string) bool {
	for _, s := range l {
		if s == "" || s == "." || s == ".." || hasSep(s) || strings.HasPrefix(s, ".") {
			return true
		}
	}
	return false
}

func checkC16(w *mon.W, dir string, l []string) {
	w.Eval()
	desc := fmt.Sprintf("dir=%q names=%q", dir, l)
	w.CaseQuiet(desc)
	if special(l) {
		w.NT(desc)
	}
	defer func() {
		if r := recover(); r != nil {
			w.Violate("crash", "C16:panic", fmt.Sprintf("panic %v on %s", r, desc), nil)
		}
	}()
	stack := splitDir(dir)
	// ValidPath
	want := refValid(l)
	if got := p9p.ValidPath(l); got != want {
		w.Violate("mismatch", "C16:ValidPath", fmt.Sprintf("ValidPath(%q)=%d want %d", l, got, want), nil)
	}
	if want >= 0 {
		w.Count("validpath_accept", 1)
	} else {
		w.Count("validpath_reject", 1)
	}
	// WalkName
	res, err := p9p.WalkName(dir, l...)
	if want < 0 || want > len(stack) {
		if err == nil {
			w.Violate("mismatch", "C16:WalkName-accepts-unsafe", fmt.Sprintf("WalkName accepted %s -> %q (valid=%d depth=%d)", desc, res, want, len(stack)), nil)
		}
		if want >= 0 {
			w.Count("walkname_reject_climb", 1)
		}
	} else {
		st, _ := refResolve(stack, l, false)
		exp := "/" + strings.Join(st, "/")
		if err != nil {
			w.Violate("mismatch", "C16:WalkName-rejects-safe", fmt.Sprintf("WalkName rejected %s (%v), want %q", desc, err, exp), nil)
		} else {
			if res != exp {
				w.Violate("mismatch", "C16:WalkName-result", fmt.Sprintf("WalkName(%s)=%q want %q", desc, res, exp), nil)
			}
			if !canonical(res) {
				w.Violate("mismatch", "C16:WalkName-not-canonical", fmt.Sprintf("WalkName(%s)=%q is not a canonical absolute path", desc, res), nil)
			}
		}
		w.Count("walkname_accept", 1)
	}
	// CreateName on the first element
	if len(l) > 0 {
		name := l[0]
		ok := !(name == "" || name == "." || name == ".." || hasSep(name))
		r, err := p9p.CreateName(dir, name)
		if ok {
			exp := "/" + strings.Join(append(append([]string{}, stack...), name), "/")
			if err != nil || r != exp || !canonical(r) {
				w.Violate("mismatch", "C16:CreateName-result", fmt.Sprintf("CreateName(%q,%q)=%q,%v want %q", dir, name, r, err, exp), nil)
			}
			w.Count("createname_accept", 1)
		} else {
			if err == nil {
				w.Violate("mismatch", "C16:CreateName-accepts-unsafe", fmt.Sprintf("CreateName(%q,%q) accepted -> %q", dir, name, r), nil)
			}
			w.Count("createname_reject", 1)
		}
	}
	// NormalizePath
	in := append([]string{}, l...)
	steps, n := p9p.NormalizePath(l)
	if !eqStrs(in, l) {
		w.Violate("mismatch", "C16:Normalize-mutates-input", fmt.Sprintf("NormalizePath modified its argument: %q -> %q", in, l), nil)
	}
	rs, rn := refNormalize(l)
	if n != rn || (rn >= 0 && !eqStrs(steps, rs)) {
		w.Violate("mismatch", "C16:Normalize-result", fmt.Sprintf("NormalizePath(%q)=(%q,%d) want (%q,%d)", l, steps, n, rs, rn), nil)
	}
	if n >= 0 {
		s2, n2 := p9p.NormalizePath(steps)
		if n2 != n || !eqStrs(s2, steps) {
			w.Violate("mismatch", "C16:Normalize-not-idempotent", fmt.Sprintf("NormalizePath(NormalizePath(%q)) = (%q,%d), first (%q,%d)", l, s2, n2, steps, n), nil)
		}
		if v := p9p.ValidPath(steps); v != n {
			w.Violate("mismatch", "C16:Normalize-not-valid", fmt.Sprintf("NormalizePath(%q)=(%q,%d) but ValidPath of the result is %d", l, steps, n, v), nil)
		}
		// agrees with stepwise resolution from a deep directory
		deep := make([]string, len(l)+1)
		for i := range deep {
			deep[i] = fmt.Sprintf("d%d", i)
		}
		a, _ := refResolve(deep, l, true)
		b, _ := refResolve(deep, steps, true)
		if !eqStrs(a, b) {
			w.Violate("mismatch", "C16:Normalize-resolution", fmt.Sprintf("resolving NormalizePath(%q)=%q differs from resolving the input: %q vs %q", l, steps, b, a), nil)
		}
	}
	w.Count("normalize_checked", 1)
	// ToWalk on the joined path (only when no element contains '/', otherwise joining changes the list)
	joinable := true
	for _, s := range l {
		if strings.Contains(s, "/") {
			joinable = false
		}
	}
	if joinable && len(l) > 0 {
		for _, abs := range []bool{false, true} {
			p := strings.Join(l, "/")
			if abs {
				p = "/" + p
			}
			isAbs, st, err := p9p.ToWalk(nil, p)
			parts := strings.Split(strings.Trim(p, "/"), "/")
			es, en := refNormalize(parts)
			wantAbs := strings.HasPrefix(p, "/")
			wantErr := en < 0 || (wantAbs && en != 0)
			if isAbs != wantAbs || (err != nil) != wantErr || (!wantErr && !eqStrs(st, es)) {
				w.Violate("mismatch", "C16:ToWalk", fmt.Sprintf("ToWalk(%q)=(%v,%q,%v) want (%v,%q,err=%v)", p, isAbs, st, err, wantAbs, es, wantErr), nil)
			}
			w.Count("towalk_checked", 1)
		}
	}
}

// refusedCreatesC16: the helpers' verdict as seen through a file server that relies on them:
// a create whose name the helpers reject must be refused by ramfs AND leave the directory as it was.
func refusedCreatesC16(w *mon.W) {
	ctx := context.Background()
	sess := p9p.SFileSys(ramfs.VerifNewServer())
	sess.Attach(ctx, 1, p9p.NOFID, "u", "")
	sess.Walk(ctx, 1, 2)
	if _, _, err := sess.Create(ctx, 2, "dir", p9p.DMDIR|0755, p9p.OREAD); err != nil {
		w.Inconclusive("cannot create the test directory: %v", err)
		return
	}
	sess.Clunk(ctx, 2)
	list := func() string {
		sess.Walk(ctx, 1, 3, "dir")
		defer sess.Clunk(ctx, 3)
		if _, _, err := sess.Open(ctx, 3, p9p.OREAD); err != nil {
			return "open failed: " + err.Error()
		}
		var names []string
		off := int64(0)
		for {
			buf := make([]byte, 4096)
			n, err := sess.Read(ctx, 3, buf, off)
			if err != nil || n == 0 {
				break
			}
			off += int64(n)
			rest := buf[:n]
			for len(rest) > 0 {
				d, used, derr := refcodec.DecodeStat(rest)
				if derr != nil {
					break
				}
				names = append(names, fmt.Sprintf("%q", d.Name))
				rest = rest[used:]
			}
		}
		sortStrings(names)
		return strings.Join(names, ",")
	}
	before := list()
	for _, name := range append(append([]string{}, c16alpha...), "../up", "a/../b", "x\\..\\y", "/abs", "ok1") {
		unsafe := name == "" || name == "." || name == ".." || hasSep(name)
		sess.Walk(ctx, 1, 4, "dir")
		_, _, err := sess.Create(ctx, 4, name, 0644, p9p.ORDWR)
		sess.Clunk(ctx, 4)
		w.Count("refused_create_probes", 1)
		after := list()
		if unsafe {
			if err == nil {
				w.Violate("mismatch", "C16:unsafe-create-accepted", fmt.Sprintf("ramfs accepted the create name %q", name), nil)
				return
			}
			if after != before {
				w.Violate("mismatch", "C16:refused-create-left-an-entry", fmt.Sprintf("the create name %q was refused (%v) but the directory changed: before [%s], after [%s]", name, err, before, after), nil)
				return
			}
		}
		before = after
	}
}

func runC16(w *mon.W) {
	if w.Mine(0) {
		w.CaseQuiet("C16 refused creates through ramfs")
		refusedCreatesC16(w)
	}
	dirs := []string{"/", "/a", "/a/b", "/a/b/c"}
	// exhaustive part
	idx := 0
	var rec func(l []string, depth int)
	rec = func(l []string, depth int) {
		if w.Mine(idx) {
			for _, d := range dirs {
				checkC16(w, d, append([]string{}, l...))
			}
			w.Count("exhaustive_lists", 1)
			if w.WantSample() && idx%2971 == 0 {
				w.Sample(map[string]interface{}{"dir": "all of " + strings.Join(dirs, " "), "names": append([]string{}, l...)})
			}
		}
		idx++
		if depth == 4 {
			return
		}
		for _, a := range c16alpha {
			rec(append(l, a), depth+1)
		}
	}
	rec(nil, 0)
	w.SetExhaustive(true)
	// sampled part: longer lists, random names, deeper directories
	n := w.Scale(40000, 30000000)
	deepDirs := append([]string{}, dirs...)
	deepDirs = append(deepDirs, "/x/y/z/w/v", "/..a/...", "/a/b/c/d/e/f/g/h/i/j/k/l/m/n/o/p/q")
	for i := 0; i < n; i++ {
		if !w.Mine(i) {
			continue
		}
		ln := w.Rng.Intn(18)
		l := make([]string, ln)
		for j := range l {
			switch r := w.Rng.Intn(14); {
			case r < 11:
				l[j] = c16alpha[r]
			case r == 11:
				b := make([]byte, 1+w.Rng.Intn(4))
				w.Rng.Read(b)
				l[j] = string(b)
			case r == 12:
				l[j] = "n\x00m"
			default:
				l[j] = "é" + string(rune('a'+w.Rng.Intn(26)))
			}
		}
		// bias towards leading ".." runs so that the depth bound is exercised
		if w.Rng.Intn(3) == 0 {
			k := w.Rng.Intn(6)
			for j := 0; j < k && j < len(l); j++ {
				l[j] = ".."
			}
		}
		checkC16(w, deepDirs[w.Rng.Intn(len(deepDirs))], l)
	}
}
