package props

import (
	"bytes"
	"encoding/hex"
	"fmt"
	"io"
	"time"

	p9p "github.com/frobnitzem/go-p9p"

	"verifharness/gen"
	"verifharness/mon"
	"verifharness/refcodec"
)

// C01: wire format conforms to 9P2000 and round-trips (DESIGN.md section 4, C01).
func init() {
	req := []string{}
	for _, k := range gen.Kinds {
		req = append(req, "kind:"+k.String())
	}
	req = append(req, "dir_records", "bare_values", "held_encodings_rechecked", "decoded_then_buffer_reused", "message_type_methods_checked", "decodedir_from_short_reads")
	register(&mon.Spec{
		ID:    "C01",
		Level: "exploration",
		Rule: "messages of all 27 kinds from a seeded boundary-dense generator (every integer field from {0,1,2^k-1,2^k,max,rnd}, strings of length {0,1,255,256,4000,65535,rnd} with arbitrary bytes, " +
			"name/qid lists of length {0,1,16,17,255,256,65535,rnd}, data of {0,1,4095,8192,65536,1MiB,rnd} bytes, stat records up to exactly 65535 bytes; same-width neighbouring fields always differ); " +
			"each is checked against the independent reference codec: Marshal==ref bytes, Size==len, Unmarshal(Marshal)==m, Unmarshal(ref)==m, ref.Decode(Marshal)==m; Dir via EncodeDir/DecodeDir; bare Qid/[]string/[]Qid. " +
			"non-trivial = has a non-empty variable-length field or a boundary integer; distinct by (kind, hash of reference bytes)",
		Assumptions: []string{
			"the reference codec (harness/refcodec, transcribed from intro(5)/stat(5)) is the oracle for the manual's byte layout",
			"only representable values are generated (the property's precondition); sampled, not exhaustive",
		},
		Shards:   shards(8, 16),
		Timeout:  timeouts(12*time.Minute, 90*time.Minute),
		MinEvals: 1000,
		Required: req,
		Run:      runC01,
	})
}

func hexHead(b []byte) string {
	if len(b) > 96 {
		return hex.EncodeToString(b[:96]) + fmt.Sprintf("...(%d bytes)", len(b))
	}
	return hex.EncodeToString(b)
}

func firstDiff(a, b []byte) int {
	n := len(a)
	if len(b) < n {
		n = len(b)
	}
	for i := 0; i < n; i++ {
		if a[i] != b[i] {
			return i
		}
	}
	if len(a) != len(b) {
		return n
	}
	return -1
}

func nontrivialMsg(ref []byte) bool { return len(ref) > 3 }

// held keeps earlier Marshal outputs alive while later messages are marshalled: the
// bytes handed out for one message must stay that message's encoding.
type heldEnc struct {
	got, ref []byte
	desc     string
}

var c01held []heldEnc

func holdC01(w *mon.W, got, ref []byte, desc string) {
	c01held = append(c01held, heldEnc{got, ref, desc})
	if len(c01held) < 6 {
		return
	}
	for _, h := range c01held {
		w.Count("held_encodings_rechecked", 1)
		if !bytes.Equal(h.got, h.ref) {
			w.Violate("mismatch", "C01:marshal-output-overwritten", fmt.Sprintf("the bytes Marshal returned for %s were overwritten by later Marshal calls: now %s, were %s", h.desc, hexHead(h.got), hexHead(h.ref)), nil)
		}
	}
	c01held = c01held[:0]
}

func runC01(w *mon.W) {
	codec := p9p.NewCodec()
	total := w.Scale(16000, 4000000)
	g := gen.New(w.Rng)
	gs := gen.Small(w.Rng)
	for i := 0; i < total; i++ {
		if !w.Mine(i) {
			continue
		}
		kind := gen.Kinds[(i/w.NShards)%len(gen.Kinds)]
		gg := gs
		// one in 8 cases (quick) uses the full-size generator
		if w.Rng.Intn(8) == 0 {
			gg = g
		}
		fc := gg.Fcall(kind)
		checkFcallC01(w, codec, fc)
	}
	// Dir records on their own
	nd := w.Scale(2500, 400000)
	for i := 0; i < nd; i++ {
		if !w.Mine(i) {
			continue
		}
		gg := gs
		if w.Rng.Intn(6) == 0 {
			gg = g
		}
		d := gg.Dir()
		checkDirC01(w, codec, d)
	}
	// bare values
	nb := w.Scale(2000, 300000)
	for i := 0; i < nb; i++ {
		if !w.Mine(i) {
			continue
		}
		checkBareC01(w, codec, gs)
	}
}

func checkFcallC01(w *mon.W, codec p9p.Codec, fc *p9p.Fcall) {
	// the type a message value reports for itself is the one the manual assigns to its kind
	// (newFcall and the server's replies take the wire type from it)
	if want, err := refcodec.TypeOf(fc.Message); err == nil {
		w.Count("message_type_methods_checked", 1)
		if got := uint8(fc.Message.Type()); got != want {
			w.Violate("mismatch", "C01:message-type-method", fmt.Sprintf("%T.Type() = %d, the manual numbers this message %d", fc.Message, got, want), nil)
		}
	}
	kind := fc.Type.String()
	ref, err := refcodec.Encode(fc)
	if err != nil {
		w.Note("generator produced an unrepresentable %s: %v", kind, err)
		return
	}
	w.Eval()
	w.Count("kind:"+kind, 1)
	if nontrivialMsg(ref) {
		w.NT(fmt.Sprintf("%s/%x", kind, mon.Hash(string(ref))))
	}
	desc := func() string { return refcodec.Describe(fc) + " ref=" + hexHead(ref) }
	if w.SampleDue(97) {
		w.Sample(map[string]interface{}{"message": refcodec.Describe(fc), "reference_bytes": hexHead(ref)})
	}
	got, err := codec.Marshal(fc)
	if err != nil {
		w.Violate("mismatch", "C01:marshal-error:"+kind, fmt.Sprintf("Marshal failed for a representable message: %v; %s", err, desc()), nil)
		return
	}
	if bytes.Equal(got, ref) && len(got) < 4096 {
		holdC01(w, got, ref, refcodec.Describe(fc))
	}
	if !bytes.Equal(got, ref) {
		w.Violate("mismatch", "C01:marshal-bytes:"+kind,
			fmt.Sprintf("Marshal differs from the 9P2000 layout at byte %d: got %s want %s for %s", firstDiff(got, ref), hexHead(got), hexHead(ref), refcodec.Describe(fc)), nil)
	}
	if sz := codec.Size(fc); sz != len(got) {
		w.Violate("mismatch", "C01:size:"+kind, fmt.Sprintf("Size=%d but Marshal produced %d bytes for %s", sz, len(got), desc()), nil)
	}
	var back p9p.Fcall
	if err := codec.Unmarshal(got, &back); err != nil {
		w.Violate("mismatch", "C01:unmarshal-own-error:"+kind, fmt.Sprintf("Unmarshal(Marshal(m)) failed: %v for %s", err, desc()), nil)
	} else if !refcodec.EqFcall(&back, fc) {
		w.Violate("mismatch", "C01:roundtrip:"+kind, fmt.Sprintf("Unmarshal(Marshal(m)) = %s, want %s", refcodec.Describe(&back), refcodec.Describe(fc)), nil)
	}
	// the decoded message must stay equal to the original when the input buffer is reused
	if len(ref) < 1<<16 {
		buf := append([]byte{}, ref...)
		var held p9p.Fcall
		if err := codec.Unmarshal(buf, &held); err == nil {
			for i := range buf {
				buf[i] = 0xA5
			}
			w.Count("decoded_then_buffer_reused", 1)
			if !refcodec.EqFcall(&held, fc) {
				w.Violate("mismatch", "C01:decoded-aliases-input:"+kind, fmt.Sprintf("after the input buffer was reused the decoded message changed: now %s, was %s", refcodec.Describe(&held), refcodec.Describe(fc)), nil)
			}
		}
	}
	var foreign p9p.Fcall
	if err := codec.Unmarshal(ref, &foreign); err != nil {
		w.Violate("mismatch", "C01:unmarshal-ref-error:"+kind, fmt.Sprintf("Unmarshal of the reference encoding failed: %v for %s", err, desc()), nil)
	} else if !refcodec.EqFcall(&foreign, fc) {
		w.Violate("mismatch", "C01:decode-foreign:"+kind, fmt.Sprintf("Unmarshal(reference bytes) = %s, want %s", refcodec.Describe(&foreign), refcodec.Describe(fc)), nil)
	}
	if rd, err := refcodec.Decode(got); err != nil {
		if bytes.Equal(got, ref) {
			w.Note("reference decoder rejected its own encoding: %v", err)
		} else {
			w.Violate("mismatch", "C01:ref-decode-error:"+kind, fmt.Sprintf("a conforming peer cannot decode Marshal's output: %v; got %s", err, hexHead(got)), nil)
		}
	} else if !refcodec.EqFcall(rd, fc) {
		w.Violate("mismatch", "C01:ref-decode:"+kind, fmt.Sprintf("a conforming peer decodes Marshal's output as %s, want %s", refcodec.Describe(rd), refcodec.Describe(fc)), nil)
	}
	w.Count("equations_checked", 5)
}

func checkDirC01(w *mon.W, codec p9p.Codec, d p9p.Dir) {
	ref, err := refcodec.EncodeStat(d)
	if err != nil {
		return
	}
	w.Eval()
	w.Count("dir_records", 1)
	w.NT(fmt.Sprintf("dir/%x", mon.Hash(string(ref))))
	var buf bytes.Buffer
	if err := p9p.EncodeDir(codec, &buf, &d); err != nil {
		w.Violate("mismatch", "C01:encodedir-error", fmt.Sprintf("EncodeDir failed: %v for %v", err, d), nil)
		return
	}
	if !bytes.Equal(buf.Bytes(), ref) {
		w.Violate("mismatch", "C01:encodedir-bytes", fmt.Sprintf("EncodeDir differs from stat(5) layout at byte %d: got %s want %s", firstDiff(buf.Bytes(), ref), hexHead(buf.Bytes()), hexHead(ref)), nil)
	}
	if sz := codec.Size(d); sz != len(ref) {
		w.Violate("mismatch", "C01:dir-size", fmt.Sprintf("Size(Dir)=%d, encoded %d bytes", sz, len(ref)), nil)
	}
	var back p9p.Dir
	if err := p9p.DecodeDir(codec, bytes.NewReader(ref), &back); err != nil {
		w.Violate("mismatch", "C01:decodedir-error", fmt.Sprintf("DecodeDir of a valid stat record failed: %v (%s)", err, hexHead(ref)), nil)
	} else if !refcodec.EqDir(back, d) {
		w.Violate("mismatch", "C01:decodedir", fmt.Sprintf("DecodeDir = %v, want %v", back, d), nil)
	}
	// the same record arriving in pieces (a socket, a pipe, a small buffered reader)
	for _, piece := range []int{1, 3, 16} {
		var back2 p9p.Dir
		if err := p9p.DecodeDir(codec, &pieceReader{b: ref, n: piece}, &back2); err != nil {
			w.Violate("mismatch", "C01:decodedir-error:pieces", fmt.Sprintf("DecodeDir of a valid stat record delivered %d byte(s) per read failed: %v (%s)", piece, err, hexHead(ref)), nil)
		} else if !refcodec.EqDir(back2, d) {
			w.Violate("mismatch", "C01:decodedir:pieces", fmt.Sprintf("DecodeDir from a reader that delivers %d byte(s) per read = %v, want %v", piece, back2, d), nil)
		}
		w.Count("decodedir_from_short_reads", 1)
	}
	// several records back to back ([]Dir encoding used by directory reads)
	if len(ref) < 2000 {
		d2 := d
		d2.Name += "2"
		ref2, _ := refcodec.EncodeStat(d2)
		b, err := codec.Marshal([]p9p.Dir{d, d2})
		if err != nil || !bytes.Equal(b, append(append([]byte{}, ref...), ref2...)) {
			w.Violate("mismatch", "C01:dirslice-bytes", fmt.Sprintf("Marshal([]Dir) is not the concatenation of the records (err=%v)", err), nil)
		}
		var ds []p9p.Dir
		if err := codec.Unmarshal(append(append([]byte{}, ref...), ref2...), &ds); err != nil || len(ds) != 2 || !refcodec.EqDir(ds[0], d) || !refcodec.EqDir(ds[1], d2) {
			w.Violate("mismatch", "C01:dirslice-decode", fmt.Sprintf("Unmarshal([]Dir) of two records gave %d records, err=%v", len(ds), err), nil)
		}
	}
}

func checkBareC01(w *mon.W, codec p9p.Codec, g *gen.G) {
	w.Eval()
	w.Count("bare_values", 1)
	q := g.Qid()
	want := []byte{byte(q.Type), byte(q.Version), byte(q.Version >> 8), byte(q.Version >> 16), byte(q.Version >> 24)}
	for i := 0; i < 8; i++ {
		want = append(want, byte(q.Path>>(8*uint(i))))
	}
	b, err := codec.Marshal(q)
	if err != nil || !bytes.Equal(b, want) {
		w.Violate("mismatch", "C01:qid-bytes", fmt.Sprintf("Marshal(Qid %v) = %x, want %x (err=%v)", q, b, want, err), nil)
	}
	var qb p9p.Qid
	if err := codec.Unmarshal(want, &qb); err != nil || qb != q {
		w.Violate("mismatch", "C01:qid-decode", fmt.Sprintf("Unmarshal(Qid) = %v err=%v, want %v", qb, err, q), nil)
	}
	if codec.Size(q) != 13 {
		w.Violate("mismatch", "C01:qid-size", fmt.Sprintf("Size(Qid)=%d", codec.Size(q)), nil)
	}
	// []string
	n := g.R.Intn(5)
	ss := make([]string, n)
	wantS := []byte{byte(n), 0}
	for i := range ss {
		ss[i] = g.Str()
		wantS = append(wantS, byte(len(ss[i])), byte(len(ss[i])>>8))
		wantS = append(wantS, ss[i]...)
	}
	w.NT(fmt.Sprintf("strs/%x", mon.Hash(string(wantS))))
	b, err = codec.Marshal(ss)
	if err != nil || !bytes.Equal(b, wantS) {
		w.Violate("mismatch", "C01:strings-bytes", fmt.Sprintf("Marshal([]string) = %s want %s err=%v", hexHead(b), hexHead(wantS), err), nil)
	}
	var sb []string
	if err := codec.Unmarshal(wantS, &sb); err != nil || len(sb) != len(ss) {
		w.Violate("mismatch", "C01:strings-decode", fmt.Sprintf("Unmarshal([]string) err=%v len=%d want %d", err, len(sb), len(ss)), nil)
	} else {
		for i := range ss {
			if sb[i] != ss[i] {
				w.Violate("mismatch", "C01:strings-decode", fmt.Sprintf("Unmarshal([]string)[%d] = %q want %q", i, sb[i], ss[i]), nil)
			}
		}
	}
	if codec.Size(ss) != len(wantS) {
		w.Violate("mismatch", "C01:strings-size", fmt.Sprintf("Size([]string)=%d want %d", codec.Size(ss), len(wantS)), nil)
	}
}

// pieceReader delivers at most n bytes per Read.
type pieceReader struct {
	b []byte
	n int
}

func (r *pieceReader) Read(p []byte) (int, error) {
	if len(r.b) == 0 {
		return 0, io.EOF
	}
	k := r.n
	if k > len(p) {
		k = len(p)
	}
	if k > len(r.b) {
		k = len(r.b)
	}
	copy(p, r.b[:k])
	r.b = r.b[k:]
	return k, nil
}
