package props

import (
	"bytes"
	"context"
	"fmt"
	"runtime"
	"strings"
	"sync"
	"sync/atomic"
	"time"

	"github.com/anishathalye/porcupine"
	p9p "github.com/frobnitzem/go-p9p"

	"verifharness/fsx"
	"verifharness/mon"
)

// C14: concurrent session operations are atomic per fid and never deadlock.
func init() {
	register(&mon.Spec{
		ID:    "C14",
		Level: "exploration",
		Rule: "concurrent histories on one p9p.SFileSys(instrumented FS): 2-5 threads x 2-7 operations (attach, clone, walk, in-place walk, open, read, write, stat, create, clunk, remove) sharing a pool of fids; each thread allocates new fids only from its own disjoint pool (the property's precondition) " +
			"but may use, clunk, remove or walk from any fid, including one another thread is in the middle of allocating. Schedules are produced by a gate inside the FS: every FS call parks on entry, the controller waits until every other goroutine is parked (goroutine states, no clocks) and then releases one parked call chosen by the PRNG " +
			"(so lock hand-over, lookup->lock and delete->lock windows are hit deliberately); a second family runs free with random yields. Oracles: (1) overlap monitor inside the FS (two calls in progress on one handle or its file), release monitor; (2) every call returned when all gates are released — otherwise the blocked sites are reported as a deadlock; " +
			"(3) afterwards the verif hook must report no locked fid and, after Stop, nothing bound or leaked; (4) porcupine v1.3.0 checks the invoke/return history (logical clock) for linearizability against the sequential fid-table model (non-deterministic model where the statement leaves a choice); (5) Go race detector, reports with a frame in sfilesys.go. " +
			"One history in four (of those with >= 3 threads) starts with crossing walks: fids a and b both bound, one thread inside the FS on a, one walking a->b and one b->a. Two further families: reads of several open files issued through the server's request handler (p9p.SSession), sequentially and from concurrent goroutines, every reply kept untouched until all handlers of the round have returned and then compared with its own file's bytes; and Stop reached through ServeConn's shutdown while operations are still inside the file system (scripts and monitors of C11). " +
			"non-trivial = >= 2 calls overlapped in time on a shared fid; distinct by hash of the (call, return) order",
		Assumptions: []string{
			"the FS gate scheduler interleaves at FS-call granularity; interleavings inside the session's own critical sections are left to the Go scheduler (plus the race detector)",
			"porcupine timeouts are inconclusive (history re-checked with a longer limit once), never violations",
			"requires the verif-tagged fid-table hook",
		},
		Race:      true,
		RaceFiles: []string{"sfilesys.go", "ssesssion.go", "serveconn.go"},
		Shards:    shards(8, 16),
		Timeout:   timeouts(12*time.Minute, 90*time.Minute),
		MinEvals:  100,
		Required:  []string{"histories_gated", "histories_free", "porcupine:ok", "overlapping_pairs_on_shared_fid", "locked_fid_scans", "mutex_waits_observed", "held_reply_rounds", "served_shutdown_runs", "crossing_walk_histories"},
		Run:       runC14,
	})
}

// ---------------------------------------------------------------- model (paths)

// The model identifies nodes by path. That is sound here because every name a history
// creates is created at most once (per-thread unique names), so a path never denotes
// two different nodes; fids bound to removed nodes keep their path and the path is in
// the Gone set.
type c14universe struct {
	static map[string]bool // path -> is directory
}

const c14maxFids = 12

type c14fid struct {
	Path string // "" = unbound
	Open bool
	Mode uint8
}

type c14state struct {
	F    [c14maxFids]c14fid
	Made string // "\n"-separated sorted set of created paths
	Gone string // "\n"-separated sorted set of removed paths
}

type c14out struct {
	Err bool
	NQ  int
	Txt string // error text, for witnesses only (the model ignores it)
}

func buildUniverse(threads int) *c14universe {
	u := &c14universe{static: map[string]bool{}}
	root, _ := fsx.NewTree()
	var add func(n *fsx.Node)
	add = func(n *fsx.Node) {
		u.static[n.Path()] = n.Dir
		for _, k := range n.KidNames() {
			add(n.Kids[k])
		}
	}
	add(root)
	return u
}

func setHas(set, p string) bool {
	for _, x := range strings.Split(set, "\n") {
		if x == p && p != "" {
			return true
		}
	}
	return false
}

func setAdd(set, p string) string {
	xs := []string{p}
	if set != "" {
		xs = append(strings.Split(set, "\n"), p)
	}
	sortStrings(xs)
	return strings.Join(xs, "\n")
}

func baseName(p string) string {
	if p == "/" {
		return "/"
	}
	return p[strings.LastIndex(p, "/")+1:]
}

func parentPath(p string) string {
	if p == "/" {
		return "/"
	}
	i := strings.LastIndex(p, "/")
	if i == 0 {
		return "/"
	}
	return p[:i]
}

func joinPath(dir, name string) string {
	if dir == "/" {
		return "/" + name
	}
	return dir + "/" + name
}

func (u *c14universe) isDir(p string) bool {
	if d, ok := u.static[p]; ok {
		return d
	}
	return !strings.HasPrefix(baseName(p), "nf") // created: nf* are files, nd*/odfail* directories
}

func (u *c14universe) exists(st *c14state, p string) bool {
	if setHas(st.Gone, p) {
		return false
	}
	if _, ok := u.static[p]; ok {
		return true
	}
	return setHas(st.Made, p)
}

func (u *c14universe) hasKids(st *c14state, p string) bool {
	pre := p + "/"
	if p == "/" {
		pre = "/"
	}
	check := func(x string) bool {
		return x != p && strings.HasPrefix(x, pre) && !strings.Contains(x[len(pre):], "/") && u.exists(st, x)
	}
	for x := range u.static {
		if check(x) {
			return true
		}
	}
	for _, x := range strings.Split(st.Made, "\n") {
		if x != "" && check(x) {
			return true
		}
	}
	return false
}

func fidIdx(f p9p.Fid) int {
	if f == p9p.NOFID || int(f) >= c14maxFids {
		return -1
	}
	return int(f)
}

// step returns the possible next states for (state, op, observed output); empty = the
// output is not possible in this state.
func (u *c14universe) step(st c14state, o fsx.Op, out c14out) []c14state {
	same := []c14state{st}
	var none []c14state
	failOnly := func() []c14state {
		if out.Err {
			return same
		}
		return none
	}
	fi := fidIdx(o.Fid)
	bound := fi >= 0 && st.F[fi].Path != ""
	switch o.Kind {
	case "attach":
		if o.Afid != p9p.NOFID || fi < 0 || bound || o.Aname == "fail" {
			return failOnly()
		}
		if out.Err {
			return none
		}
		st.F[fi] = c14fid{Path: "/"}
		return []c14state{st}
	case "walk":
		if !validNamesC14(o.Names) || !bound {
			return failOnly()
		}
		ni := fidIdx(o.NewFid)
		if o.NewFid != o.Fid {
			if ni < 0 || st.F[ni].Path != "" {
				return failOnly()
			}
		}
		cur := st.F[fi].Path
		if len(o.Names) == 0 {
			if o.NewFid == o.Fid {
				if out.Err || out.NQ != 0 {
					return none
				}
				return same
			}
			if strings.HasPrefix(baseName(cur), "wfail") {
				return failOnly()
			}
			if out.Err || out.NQ != 0 {
				return none
			}
			st.F[ni] = c14fid{Path: cur}
			return []c14state{st}
		}
		if !u.isDir(cur) {
			return failOnly()
		}
		k := 0
		for ; k < len(o.Names); k++ {
			nm := o.Names[k]
			next := ""
			if nm == ".." {
				next = parentPath(cur)
			} else if u.isDir(cur) && !setHas(st.Gone, cur) {
				if c := joinPath(cur, nm); u.exists(&st, c) {
					next = c
				}
			}
			if next == "" {
				break
			}
			cur = next
		}
		if k < len(o.Names) {
			nm := o.Names[k]
			if k == 0 {
				if strings.HasPrefix(nm, "x") {
					return failOnly()
				}
				if out.Err || out.NQ == 0 {
					return same
				}
				return none
			}
			if strings.HasPrefix(nm, "nil") {
				return failOnly()
			}
			if !out.Err && out.NQ == k {
				return same
			}
			return none
		}
		if strings.HasPrefix(baseName(cur), "wnil") {
			return failOnly()
		}
		inplace := o.NewFid == o.Fid
		if inplace && st.F[fi].Open && out.Err {
			return same // refusing to walk an open fid is acceptable
		}
		if out.Err || out.NQ != len(o.Names) {
			return none
		}
		if inplace {
			st.F[fi] = c14fid{Path: cur}
		} else {
			st.F[ni] = c14fid{Path: cur}
		}
		return []c14state{st}
	case "open":
		if !bound || st.F[fi].Open {
			return failOnly()
		}
		p := st.F[fi].Path
		n := baseName(p)
		if (u.isDir(p) && strings.HasPrefix(n, "odfail")) || (!u.isDir(p) && (strings.HasPrefix(n, "ofail") || strings.HasPrefix(n, "onil"))) {
			return failOnly()
		}
		if out.Err {
			return none
		}
		st.F[fi].Open, st.F[fi].Mode = true, uint8(o.Mode)
		return []c14state{st}
	case "read", "write":
		if !bound || !st.F[fi].Open {
			return failOnly()
		}
		m3 := st.F[fi].Mode & 3
		p := st.F[fi].Path
		if o.Kind == "read" {
			if m3 == 1 {
				return failOnly()
			}
			if u.isDir(p) {
				return same // directory reads: either outcome (C17 judges their content)
			}
		} else {
			if m3 != 1 && m3 != 2 {
				return failOnly()
			}
			if u.isDir(p) {
				return failOnly()
			}
		}
		if strings.HasPrefix(baseName(p), "iofail") {
			return failOnly()
		}
		if out.Err {
			return none
		}
		return same
	case "stat", "wstat":
		if !bound || strings.HasPrefix(baseName(st.F[fi].Path), "sfail") {
			return failOnly()
		}
		if out.Err {
			return none
		}
		return same
	case "clunk", "remove":
		if !bound {
			return failOnly()
		}
		p := st.F[fi].Path
		n := baseName(p)
		st.F[fi] = c14fid{}
		fails := false
		if o.Kind == "clunk" {
			fails = strings.HasPrefix(n, "kfail")
		} else {
			switch {
			case p == "/", strings.HasPrefix(n, "rfail"), !u.exists(&st, p), u.isDir(p) && u.hasKids(&st, p):
				fails = true
			default:
				st.Gone = setAdd(st.Gone, p)
			}
		}
		if fails != out.Err {
			return none
		}
		return []c14state{st}
	case "create":
		if o.Name == "." || o.Name == ".." || !bound {
			return failOnly()
		}
		pp := st.F[fi].Path
		if !u.isDir(pp) || setHas(st.Gone, pp) {
			return failOnly()
		}
		np := joinPath(pp, o.Name)
		if u.exists(&st, np) || setHas(st.Made, np) {
			return failOnly()
		}
		st.Made = setAdd(st.Made, np)
		if strings.HasPrefix(o.Name, "odfail") {
			if !out.Err {
				return none
			}
			untouched := st
			unbound := st
			unbound.F[fi] = c14fid{}
			return []c14state{untouched, unbound}
		}
		if out.Err {
			return none
		}
		st.F[fi] = c14fid{Path: np, Open: true, Mode: uint8(o.Mode)}
		return []c14state{st}
	}
	return none
}

func validNamesC14(l []string) bool {
	lead := 0
	for i, s := range l {
		if s == "" || s == "." || strings.ContainsAny(s, "/\\") {
			return false
		}
		if s == ".." {
			if lead != i {
				return false
			}
			lead++
		}
	}
	return true
}

// ---------------------------------------------------------------- workload

type c14rec struct {
	thread int
	op     fsx.Op
	call   int64
	ret    int64
	out    c14out
	done   bool
}

func genC14Thread(r rnd, t, threads int, hot []p9p.Fid) []fsx.Op {
	own := []p9p.Fid{p9p.Fid(2*t + 1), p9p.Fid(2*t + 2)}
	anyFid := func() p9p.Fid {
		if r.Intn(3) != 0 && len(hot) > 0 {
			return hot[r.Intn(len(hot))]
		}
		return p9p.Fid(r.Intn(2*threads + 1))
	}
	walks := [][]string{{"d"}, {"a"}, {"d", "g"}, {"d", "e"}, {".."}, {"d", "missing"}, {"missing"}, {"xmissing"}, {"kfail1"}, {"rfail1"}, {"d", "g", "h"}, {"ofail1"}, {"ofailf1"}, {"iofail1"}, {"wfail1"}}
	n := 2 + r.Intn(6)
	var ops []fsx.Op
	created := 0
	for len(ops) < n {
		switch r.Intn(15) {
		case 0:
			o := fsx.Op{Kind: "attach", Fid: own[r.Intn(2)], Afid: p9p.NOFID}
			if r.Intn(3) == 0 {
				o.Afid = anyFid() // an ordinary fid offered as auth fid: must fail and disturb nothing
			}
			ops = append(ops, o)
		case 1, 2:
			ops = append(ops, fsx.Op{Kind: "walk", Fid: anyFid(), NewFid: own[r.Intn(2)], Names: walks[r.Intn(len(walks))]})
		case 3:
			ops = append(ops, fsx.Op{Kind: "walk", Fid: anyFid(), NewFid: own[r.Intn(2)]})
		case 4:
			f := anyFid()
			ops = append(ops, fsx.Op{Kind: "walk", Fid: f, NewFid: f, Names: walks[r.Intn(len(walks))]})
		case 5, 6:
			ops = append(ops, fsx.Op{Kind: "open", Fid: anyFid(), Mode: []p9p.Flag{p9p.OREAD, p9p.OWRITE, p9p.ORDWR}[r.Intn(3)]})
		case 7, 8:
			ops = append(ops, fsx.Op{Kind: "read", Fid: anyFid(), N: 8})
		case 9:
			ops = append(ops, fsx.Op{Kind: "write", Fid: anyFid(), N: 8})
		case 10:
			ops = append(ops, fsx.Op{Kind: "stat", Fid: anyFid()})
		case 11, 12:
			ops = append(ops, fsx.Op{Kind: "clunk", Fid: anyFid()})
		case 13:
			ops = append(ops, fsx.Op{Kind: "remove", Fid: anyFid()})
		default:
			if created == 7 {
				continue
			}
			names := []string{fmt.Sprintf("nf%d", t), fmt.Sprintf("nd%d", t), fmt.Sprintf("odfail%d", t)}
			k := r.Intn(3)
			for created&(1<<uint(k)) != 0 {
				k = (k + 1) % 3
			}
			nm := names[k]
			created |= 1 << uint(k)
			perm := uint32(0644)
			if !strings.HasPrefix(nm, "nf") {
				perm |= p9p.DMDIR
			}
			ops = append(ops, fsx.Op{Kind: "create", Fid: anyFid(), Name: nm, Perm: perm, Mode: p9p.ORDWR})
		}
	}
	return ops
}

// heldRepliesC14: reads of several open files go through the request handler the server
// uses (p9p.SSession); every reply is kept, untouched, until all handlers of the round have
// returned - sequentially issued, and issued from concurrent goroutines - and must then
// still carry its own file's bytes.
func heldRepliesC14(w *mon.W, no int) {
	ctx := context.Background()
	fs := fsx.New()
	sess := p9p.SFileSys(fs)
	h := p9p.SSession(sess)
	w.Case("C14 held replies #%d", no)
	w.Eval()
	w.Count("held_reply_rounds", 1)
	sess.Attach(ctx, 0, p9p.NOFID, "u", "")
	paths := [][]string{{"a"}, {"b"}, {"d", "e"}, {"d", "f"}, {"d", "g", "h"}}
	var nodes []*fsx.Node
	for i, pth := range paths {
		f := p9p.Fid(10 + i)
		if qs, err := sess.Walk(ctx, 0, f, pth...); err != nil || len(qs) != len(pth) {
			w.Inconclusive("walk %v: %v", pth, err)
			return
		}
		if _, _, err := sess.Open(ctx, f, p9p.OREAD); err != nil {
			w.Inconclusive("open %v: %v", pth, err)
			return
		}
		n := fs.Root
		for _, name := range pth {
			n = n.Kids[name]
		}
		nodes = append(nodes, n)
	}
	type held struct {
		fid  int
		off  int64
		cnt  int
		data []byte
		err  error
	}
	check := func(hs []held, how string) bool {
		for _, x := range hs {
			if x.err != nil {
				w.Violate("mismatch", "C14:held-reply-error", fmt.Sprintf("%s: Tread on fid %d failed: %v", how, 10+x.fid, x.err), nil)
				return false
			}
			want := make([]byte, x.cnt)
			want = want[:fsx.FileRead(nodes[x.fid], want, x.off)]
			if !bytes.Equal(x.data, want) {
				w.Violate("mismatch", "C14:reply-changed-after-handler-returned", fmt.Sprintf("%s: the Rread returned for fid %d (off %d, count %d) no longer carries that file's bytes once later requests have been handled: differs at byte %d", how, 10+x.fid, x.off, x.cnt, firstDiff(x.data, want)), nil)
				return false
			}
		}
		return true
	}
	one := func(i int) held {
		off, cnt := int64(w.Rng.Intn(20)), 8+w.Rng.Intn(60)
		return held{fid: i, off: off, cnt: cnt}
	}
	do := func(x *held) {
		m, err := h.Handle(ctx, p9p.MessageTread{Fid: p9p.Fid(10 + x.fid), Offset: uint64(x.off), Count: uint32(x.cnt)})
		x.err = err
		if rr, ok := m.(p9p.MessageRread); ok {
			x.data = rr.Data // kept as handed out, not copied
		}
	}
	// sequential
	var hs []held
	for k := 0; k < 12; k++ {
		hs = append(hs, one(w.Rng.Intn(len(paths))))
	}
	for k := range hs {
		do(&hs[k])
	}
	if !check(hs, "handlers run one after the other") {
		return
	}
	// concurrent
	hs = hs[:0]
	for k := 0; k < 16; k++ {
		hs = append(hs, one(k%len(paths)))
	}
	var wg sync.WaitGroup
	for k := range hs {
		wg.Add(1)
		go func(x *held) { defer wg.Done(); do(x) }(&hs[k])
	}
	wg.Wait()
	if !check(hs, "handlers run concurrently") {
		return
	}
	w.NT(fmt.Sprintf("held/%d", no))
	sess.Stop(nil)
}

func runC14(w *mon.W) {
	for i := 0; i < w.Scale(200, 20000); i++ {
		if w.Mine(i) {
			heldRepliesC14(w, i)
		}
	}
	// Stop racing with operations still inside the file system: reached through ServeConn's shutdown (C11's machinery)
	idx := 0
	for si, script := range c11Scripts() {
		B, W := c11Record(w, script, si)
		if B == 0 {
			continue
		}
		for _, beh := range []int{c11SucceedAfterCancel, c11ErrOnCancel} {
			for _, f := range []c11fault{{"ctx-cancel", W + 1, beh}, {"read-eof", B, beh}, {"write-fail", W + 1, beh}} {
				idx++
				if w.Mine(idx) {
					f := f
					c11Run(w, script, si, &f)
					w.Count("served_shutdown_runs", 1)
				}
			}
		}
	}
	total := w.Scale(1600, 150000)
	for i := 0; i < total; i++ {
		if !w.Mine(i) {
			continue
		}
		runC14History(w, i, i%3 != 2)
	}
}

func runC14History(w *mon.W, no int, gated bool) {
	threads := 2 + w.Rng.Intn(4)
	u := buildUniverse(threads)
	fs := fsx.New()
	sess := p9p.SFileSys(fs)
	ctx := context.Background()

	// prologue (sequential): fid 0 = root, plus a hot fid shared by everybody
	var recs []*c14rec
	var clock int64
	tick := func() int64 { return atomic.AddInt64(&clock, 1) }
	prologue := []fsx.Op{{Kind: "attach", Fid: 0, Afid: p9p.NOFID}}
	hot := []p9p.Fid{0}
	hotFid := p9p.Fid(2*threads + 1)
	if int(hotFid) < c14maxFids {
		switch w.Rng.Intn(4) {
		case 0:
			prologue = append(prologue, fsx.Op{Kind: "walk", Fid: 0, NewFid: hotFid, Names: []string{"a"}}, fsx.Op{Kind: "open", Fid: hotFid, Mode: p9p.ORDWR})
		case 1:
			prologue = append(prologue, fsx.Op{Kind: "walk", Fid: 0, NewFid: hotFid, Names: []string{"d"}})
		case 2:
			prologue = append(prologue, fsx.Op{Kind: "walk", Fid: 0, NewFid: hotFid, Names: []string{"d", "g"}}, fsx.Op{Kind: "open", Fid: hotFid, Mode: p9p.OREAD})
		default:
			prologue = append(prologue, fsx.Op{Kind: "walk", Fid: 0, NewFid: hotFid, Names: []string{"b"}})
		}
		hot = append(hot, hotFid, hotFid)
	}
	// crossing walks: fids a and b are both bound; while a third thread is inside the file
	// system on a, one thread walks a->b and another b->a (each names the other's source as
	// its new fid: both must be refused with "duplicate fid" at once, whoever holds what)
	cross := threads >= 3 && w.Rng.Intn(4) == 0
	crossA, crossB := p9p.Fid(5), p9p.Fid(3) // a is in T2's pool, b in T1's
	if cross {
		prologue = append(prologue, fsx.Op{Kind: "walk", Fid: 0, NewFid: crossA, Names: []string{"d"}}, fsx.Op{Kind: "walk", Fid: 0, NewFid: crossB, Names: []string{"d", "g"}})
		hot = append(hot, crossA, crossB)
		w.Count("crossing_walk_histories", 1)
	}
	for _, o := range prologue {
		rc := &c14rec{thread: -1, op: o, call: tick()}
		r := fsx.Do(ctx, sess, o)
		rc.out, rc.ret, rc.done = mkOut(r), tick(), true
		recs = append(recs, rc)
	}
	plans := make([][]fsx.Op, threads)
	var desc []string
	for t := range plans {
		plans[t] = genC14Thread(w.Rng, t, threads, hot)
		if cross && t < 3 {
			var first fsx.Op
			switch t {
			case 0:
				first = []fsx.Op{{Kind: "stat", Fid: crossA}, {Kind: "walk", Fid: crossA, NewFid: crossA, Names: []string{"g"}}, {Kind: "open", Fid: crossA, Mode: p9p.OREAD}}[w.Rng.Intn(3)]
			case 1:
				first = fsx.Op{Kind: "walk", Fid: crossA, NewFid: crossB, Names: [][]string{nil, {"e"}, {"missing"}}[w.Rng.Intn(3)]}
			default:
				first = fsx.Op{Kind: "walk", Fid: crossB, NewFid: crossA, Names: [][]string{nil, {"h"}, {"missing"}}[w.Rng.Intn(3)]}
			}
			plans[t] = append([]fsx.Op{first}, plans[t]...)
		}
		desc = append(desc, fmt.Sprintf("T%d%v", t, plans[t]))
	}
	caseDesc := fmt.Sprintf("history #%d gated=%v prologue=%v %s", no, gated, prologue, strings.Join(desc, " "))
	w.Case("C14 %s", caseDesc)
	w.Eval()

	// FS gate
	var gmu sync.Mutex
	var parked []chan struct{}
	yieldSeed := int64(w.Rng.Int63())
	if gated {
		fs.Gate = func(c *fsx.Call) {
			ch := make(chan struct{})
			gmu.Lock()
			parked = append(parked, ch)
			gmu.Unlock()
			<-ch
		}
	} else {
		fs.Gate = func(c *fsx.Call) {
			k := int((yieldSeed >> uint(c.Idx%40)) & 3)
			for j := 0; j < k; j++ {
				runtime.Gosched()
			}
		}
	}

	var rmu sync.Mutex
	allDone := make(chan struct{})
	var wg sync.WaitGroup
	for t := 0; t < threads; t++ {
		wg.Add(1)
		go func(t int) {
			defer wg.Done()
			for _, o := range plans[t] {
				rc := &c14rec{thread: t, op: o}
				rmu.Lock()
				recs = append(recs, rc)
				rc.call = tick()
				rmu.Unlock()
				r := fsx.Do(ctx, sess, o)
				rmu.Lock()
				rc.out, rc.ret, rc.done = mkOut(r), tick(), true
				rmu.Unlock()
			}
		}(t)
	}
	go func() { wg.Wait(); close(allDone) }()

	// controller: release one parked FS call whenever everybody else is parked
	released := 0
	finished := false
	start := time.Now()
	for !finished {
		select {
		case <-allDone:
			finished = true
			continue
		default:
		}
		if !gated {
			q := mon.AwaitQuiesce(allDone)
			if q.Done {
				finished = true
				continue
			}
			reportHangC14(w, q, caseDesc, recs, &rmu)
			return
		}
		quiet, waits := mon.QuietNow()
		if !quiet {
			runtime.Gosched()
			if time.Since(start) > mon.Watchdog {
				w.Inconclusive("watchdog in gated history: %s", caseDesc)
				return
			}
			continue
		}
		gmu.Lock()
		np := len(parked)
		var ch chan struct{}
		if np > 0 {
			k := w.Rng.Intn(np)
			ch = parked[k]
			parked = append(parked[:k], parked[k+1:]...)
		}
		gmu.Unlock()
		if waits > 0 {
			w.Count("mutex_waits_observed", int64(waits))
		}
		if ch != nil {
			close(ch)
			released++
			continue
		}
		// nothing parked in the FS, everybody parked elsewhere, not done: a deadlock —
		// unless a call reached the gate after the snapshot (then it is in the list now).
		q := mon.AwaitQuiesce(allDone)
		if q.Done {
			finished = true
			continue
		}
		gmu.Lock()
		late := len(parked)
		gmu.Unlock()
		if late > 0 {
			w.Count("late_parkers", 1)
			continue
		}
		reportHangC14(w, q, caseDesc, recs, &rmu)
		return
	}
	fs.Gate = nil
	if gated {
		w.Count("histories_gated", 1)
		w.Count("fs_calls_scheduled", int64(released))
	} else {
		w.Count("histories_free", 1)
	}

	// (1) FS-side monitors
	if ps := fs.Problems(); len(ps) > 0 {
		w.Violate(ps[0].Kind, "C14:"+ps[0].Kind, fmt.Sprintf("file-system monitor: %s; %s", ps[0].Msg, caseDesc), map[string]interface{}{"history": caseDesc})
		return
	}
	// (3) no fid left locked
	if tab, ok := p9p.VerifFidTable(sess); ok {
		w.Count("locked_fid_scans", 1)
		for _, e := range tab {
			if e.Locked {
				w.Violate("hang", "C14:fid-left-locked", fmt.Sprintf("after every operation returned fid %d is still locked; %s", e.Fid, caseDesc), map[string]interface{}{"history": caseDesc})
				return
			}
		}
	}
	// (4) linearizability
	overl := overlapOnSharedFid(recs)
	if overl > 0 {
		w.Count("overlapping_pairs_on_shared_fid", int64(overl))
	}
	var ops []porcupine.Operation
	var order []string
	for _, rc := range recs {
		ops = append(ops, porcupine.Operation{ClientId: rc.thread + 1, Input: rc.op, Call: rc.call, Output: rc.out, Return: rc.ret})
		order = append(order, fmt.Sprintf("%d:%d-%d", rc.thread, rc.call, rc.ret))
	}
	model := porcupine.NondeterministicModel{
		Init: func() []interface{} {
			return []interface{}{c14state{}}
		},
		Step: func(state, in, out interface{}) []interface{} {
			ns := u.step(state.(c14state), in.(fsx.Op), out.(c14out))
			res := make([]interface{}, len(ns))
			for i := range ns {
				res[i] = ns[i]
			}
			return res
		},
		Equal: func(a, b interface{}) bool { return a.(c14state) == b.(c14state) },
		DescribeOperation: func(in, out interface{}) string {
			return fmt.Sprintf("%v -> err=%v nq=%d", in.(fsx.Op), out.(c14out).Err, out.(c14out).NQ)
		},
	}
	res, _ := porcupine.CheckOperationsVerbose(model.ToModel(), ops, 20*time.Second)
	if res == porcupine.Unknown {
		res, _ = porcupine.CheckOperationsVerbose(model.ToModel(), ops, 120*time.Second)
	}
	switch res {
	case porcupine.Ok:
		w.Count("porcupine:ok", 1)
	case porcupine.Unknown:
		w.Count("porcupine:unknown", 1)
		w.Inconclusive("porcupine timed out on %s", caseDesc)
	default:
		var hs []string
		for _, rc := range recs {
			hs = append(hs, fmt.Sprintf("T%d [%d,%d] %v -> err=%v nq=%d %s", rc.thread, rc.call, rc.ret, rc.op, rc.out.Err, rc.out.NQ, rc.out.Txt))
		}
		// signature: the kinds of operations involved in the smallest failing suffix are
		// not available from porcupine; use the multiset of op kinds that overlapped
		w.Violate("mismatch", "C14:not-linearizable:"+overlapKinds(recs), fmt.Sprintf("history is not linearizable w.r.t. the fid-table model: %s", strings.Join(hs, " | ")), map[string]interface{}{"history": hs})
		return
	}
	// (3') Stop releases everything, nothing leaks
	fin := make(chan struct{})
	go func() { sess.Stop(nil); close(fin) }()
	if q := mon.AwaitQuiesce(fin); q.Hung {
		w.Violate("hang", "C14:stop-hang:"+q.Sites, "Stop does not return: "+q.Sites+"; "+caseDesc, nil)
		return
	}
	if ps := fs.Problems(); len(ps) > 0 {
		w.Violate(ps[0].Kind, "C14:"+ps[0].Kind+":stop", fmt.Sprintf("file-system monitor during Stop: %s; %s", ps[0].Msg, caseDesc), nil)
		return
	}
	for _, p := range fs.FinalCheck() {
		w.Violate(p.Kind, "C14:"+p.Kind+":final", fmt.Sprintf("after Stop: %s; %s", p.Msg, caseDesc), nil)
		return
	}
	if overl > 0 {
		w.NT(strings.Join(order, ","))
	}
	if w.SampleDue(41) {
		var hs []string
		for _, rc := range recs {
			hs = append(hs, fmt.Sprintf("T%d [%d,%d] %v -> err=%v nq=%d", rc.thread, rc.call, rc.ret, rc.op, rc.out.Err, rc.out.NQ))
		}
		w.Sample(map[string]interface{}{"gated": gated, "threads": threads, "history": hs, "overlapping_pairs_on_shared_fid": overl, "linearizable": true})
	}
}

func mkOut(r fsx.Res) c14out {
	o := c14out{Err: r.Err != nil, NQ: len(r.Qids)}
	if r.Err != nil {
		o.Txt = r.Err.Error()
	}
	return o
}

func reportHangC14(w *mon.W, q mon.QuiesceResult, caseDesc string, recs []*c14rec, rmu *sync.Mutex) {
	if q.Inconclusive {
		w.Inconclusive("watchdog: %s", caseDesc)
		return
	}
	rmu.Lock()
	var pend []string
	for _, rc := range recs {
		if !rc.done {
			pend = append(pend, fmt.Sprintf("T%d %v", rc.thread, rc.op))
		}
	}
	rmu.Unlock()
	w.Violate("hang", "C14:deadlock:"+q.Sites, fmt.Sprintf("operations %v have not returned although every FS call returned and the process is quiescent; blocked at %s; %s", pend, q.Sites, caseDesc),
		map[string]interface{}{"history": caseDesc, "goroutines": mon.TrimDump(q.Dump, 5000)})
}

func fidsOf(o fsx.Op) []p9p.Fid {
	if o.Kind == "walk" {
		return []p9p.Fid{o.Fid, o.NewFid}
	}
	return []p9p.Fid{o.Fid}
}

func overlapOnSharedFid(recs []*c14rec) int {
	n := 0
	for i := range recs {
		for j := i + 1; j < len(recs); j++ {
			a, b := recs[i], recs[j]
			if a.thread == b.thread || a.thread < 0 || b.thread < 0 {
				continue
			}
			if a.ret < b.call || b.ret < a.call {
				continue
			}
			for _, x := range fidsOf(a.op) {
				for _, y := range fidsOf(b.op) {
					if x == y {
						n++
						goto next
					}
				}
			}
		next:
		}
	}
	return n
}

func overlapKinds(recs []*c14rec) string {
	set := map[string]bool{}
	for i := range recs {
		for j := i + 1; j < len(recs); j++ {
			a, b := recs[i], recs[j]
			if a.thread == b.thread || a.ret < b.call || b.ret < a.call {
				continue
			}
			for _, x := range fidsOf(a.op) {
				for _, y := range fidsOf(b.op) {
					if x == y {
						k := []string{a.op.Kind, b.op.Kind}
						if k[0] > k[1] {
							k[0], k[1] = k[1], k[0]
						}
						set[k[0]+"+"+k[1]] = true
					}
				}
			}
		}
	}
	var out []string
	for k := range set {
		out = append(out, k)
	}
	sortStrings(out)
	if len(out) > 4 {
		out = out[:4]
	}
	return strings.Join(out, ",")
}
