package props

import (
	"bufio"
	"bytes"
	"context"
	"fmt"
	"net"
	"os"
	"os/exec"
	"path/filepath"
	"regexp"
	"sort"
	"strconv"
	"strings"
	"syscall"
	"time"

	p9p "github.com/frobnitzem/go-p9p"
	"github.com/frobnitzem/go-p9p/ufs"

	"verifharness/mon"
	"verifharness/refcodec"
)

// C15: the host-directory file server is confined to its export root.
func init() {
	register(&mon.Spec{
		ID:    "C15",
		Level: "exploration",
		Rule: "hostile request sequences against the real ufs server whose export root sits next to a sentinel tree (sibling directories and files with known names, contents, modes and mtimes, among them a SECRET file): from every depth 0-3 of a small tree every name-carrying field (walk names, create name, wstat rename name, and the tree name of an additional attach) takes each element of the hostile alphabet " +
			`{"..", ".", "", "a/..", "../x", "../../outside/SECRET", "/etc", "/", "\\", "a\\..\\b", "..\\", "...", "..a", NUL-containing, 300 bytes, 60000 bytes, sentinel names} singly and in lists of 1-16 with '..' chains longer than the depth; remove and rename on the root fid (also of an EMPTIED export); create with DMDIR/DMSYMLINK/DMDEVICE/DMNAMEDPIPE bits; follow-up operations (open, write, truncate, chmod, remove, listing) through every fid obtained, including fids whose entry was renamed with a hostile name. ` +
			"Two observers: (1) in-process: after every sequence the sentinel tree must equal its snapshot, no Read/Stat/listing may return sentinel content or a sentinel inode, the export root must keep its inode; (2) traced: the same workload is sent over a unix socket to the server running in its own process under strace -f; every path argument of every file-related syscall after the serving marker is cleaned lexically and must be the export root or below it. " +
			"non-trivial = the request carries a hostile name; distinct by (field, name class, depth, follow-up)",
		Assumptions: []string{
			"symbolic links already inside the export are excluded by the statement; none are created",
			"only paths the server process passes to the kernel are judged (exactly 'objects the server reads, creates, modifies, renames or removes'); uid/gid changes are not requested, so the server has no reason to read the user database",
			"if strace cannot attach in this environment the traced half is reported inconclusive and the in-process observers decide alone",
		},
		Shards:   shards(8, 16),
		Timeout:  timeouts(12*time.Minute, 90*time.Minute),
		MinEvals: 200,
		Required: []string{"field:walk", "field:create", "field:rename", "field:attach", "rename_chains", "root:fresh-fid-after-change", "root:remove-after-rename", "root:remove", "root:rename", "root:remove-emptied", "sentinel_snapshots_compared", "followups_after_hostile_rename", "requests_refused", "requests_accepted", "vanished_cwd_probes"},
		Run:      runC15,
	})
}

const c15secret = "SENTINEL-SECRET-7f3a9c"

type c15env struct {
	base, root string
	sentinel   []snapEnt
	sentInodes map[uint64]string
	rootIno    uint64
}

func inodeOf(p string) uint64 {
	st, err := os.Lstat(p)
	if err != nil {
		return 0
	}
	return st.Sys().(*syscall.Stat_t).Ino
}

func newC15Env(dir string, tag string) (*c15env, error) {
	base, err := os.MkdirTemp(dir, "c15-"+tag+"-")
	if err != nil {
		return nil, err
	}
	e := &c15env{base: base, root: filepath.Join(base, "export"), sentInodes: map[uint64]string{}}
	for _, d := range []string{"export", "export/a", "export/a/b", "export/a/b/c", "export/d", "outside", "outside/dir", "exportX", "x"} {
		os.MkdirAll(filepath.Join(base, d), 0755)
	}
	files := map[string]string{
		"export/f": "inside-f", "export/a/fa": "inside-fa", "export/a/b/fb": "inside-fb", "export/a/b/c/fc": "inside-fc",
		"outside/SECRET": c15secret + "-1", "outside/dir/inner": c15secret + "-2", "SECRET": c15secret + "-3", "victim": c15secret + "-4",
		"exportX/near": c15secret + "-5", "x/y": c15secret + "-6", "f": c15secret + "-7",
	}
	for p, c := range files {
		os.WriteFile(filepath.Join(base, p), []byte(c), 0644)
	}
	old := time.Unix(1500000000, 0)
	filepath.Walk(base, func(p string, info os.FileInfo, err error) error {
		if err == nil && !strings.HasPrefix(p, e.root) {
			os.Chtimes(p, old, old)
			if p != base {
				e.sentInodes[info.Sys().(*syscall.Stat_t).Ino] = p
			}
		}
		return nil
	})
	os.Chtimes(base, old, old)
	e.rootIno = inodeOf(e.root)
	e.sentinel = e.snapSentinel()
	return e, nil
}

func (e *c15env) snapSentinel() []snapEnt {
	var out []snapEnt
	filepath.Walk(e.base, func(p string, info os.FileInfo, err error) error {
		if err != nil {
			return nil
		}
		if p == e.root {
			return filepath.SkipDir
		}
		rel, _ := filepath.Rel(e.base, p)
		s := snapEnt{path: rel, dir: info.IsDir(), perm: info.Mode().Perm()}
		if rel != "." {
			s.size = info.ModTime().Unix() // mtime: any touch of a sentinel shows
		}
		if !info.IsDir() {
			b, _ := os.ReadFile(p)
			s.data = string(b)
		} else {
			ents, _ := os.ReadDir(p)
			var ns []string
			for _, en := range ents {
				ns = append(ns, en.Name())
			}
			s.data = strings.Join(ns, ",")
		}
		out = append(out, s)
		return nil
	})
	sort.Slice(out, func(i, j int) bool { return out[i].path < out[j].path })
	return out
}

func (e *c15env) sentinelDiff() string {
	now := e.snapSentinel()
	if len(now) != len(e.sentinel) {
		var a, b []string
		for _, s := range e.sentinel {
			a = append(a, s.path)
		}
		for _, s := range now {
			b = append(b, s.path)
		}
		return fmt.Sprintf("objects outside the export changed: before %v, now %v", a, b)
	}
	for i := range now {
		x, y := e.sentinel[i], now[i]
		if x != y {
			return fmt.Sprintf("outside object %q changed: was {dir=%v perm=%o mtime=%d content=%q}, now {dir=%v perm=%o mtime=%d content=%q}", x.path, x.dir, x.perm, x.size, x.data, y.dir, y.perm, y.size, y.data)
		}
	}
	return ""
}

var c15hostile = []string{"..", ".", "", "a/..", "../x", "../../outside/SECRET", "../outside/SECRET", "../outside", "../victim", "../../victim", "/etc", "/", "\\", "a\\..\\b", "..\\", "...", "..a",
	"/../exportX/near", "/../exportX/zz", "/../outside/zz", "/../export/../victim", "/x", "x\x00y", "..\x00", "\x00..", ".\x00.", "..\x00\x00", "outside", "SECRET", "victim", "exportX", "../exportX/near", "..//victim", "./../victim", "a/../../victim", strings.Repeat("L", 300)}

type c15driver struct {
	w      *mon.W
	sess   p9p.Session
	env    *c15env
	next   p9p.Fid
	trace  []string
	failed bool
	traced bool
}

func (d *c15driver) bad(sig, format string, a ...interface{}) {
	d.failed = true
	d.w.Violate("mismatch", "C15:"+sig, fmt.Sprintf(format, a...)+fmt.Sprintf("; trace=[%s]", strings.Join(d.trace, "; ")), map[string]interface{}{"trace": d.trace})
}

func (d *c15driver) fid() p9p.Fid { d.next++; return d.next }

func nameClass(s string) string {
	switch {
	case len(s) > 250:
		return "long"
	case strings.Contains(s, "\x00"):
		return "nul"
	case strings.Contains(s, "SECRET") || strings.Contains(s, "victim") || strings.Contains(s, "outside") || strings.Contains(s, "exportX"):
		return "sentinel:" + strings.ReplaceAll(s, "/", "|")
	}
	return strings.ReplaceAll(s, "/", "|")
}

// probe checks what a fid gives access to: its content and stat must not be a sentinel's.
func (d *c15driver) probe(f p9p.Fid, what string) {
	ctx := context.Background()
	st, err := d.sess.Stat(ctx, f)
	if err == nil {
		if p, hit := d.env.sentInodes[st.Qid.Path]; hit && !d.traced {
			d.bad("stat-of-outside-object", "%s: Stat returns the inode of %s, which lies outside the export", what, p)
			return
		}
	}
	g := d.fid()
	if _, err := d.sess.Walk(ctx, f, g); err != nil {
		return
	}
	defer d.sess.Clunk(ctx, g)
	if _, _, err := d.sess.Open(ctx, g, p9p.OREAD); err != nil {
		return
	}
	buf := make([]byte, 8192)
	n, _ := d.sess.Read(ctx, g, buf, 0)
	if bytes.Contains(buf[:n], []byte(c15secret)) {
		d.bad("read-of-outside-object", "%s: a read returned the content of a file outside the export (%q)", what, buf[:min(n, 40)])
		return
	}
	// a directory listing must not show sentinel inodes
	if st.Mode&p9p.DMDIR != 0 {
		rest := buf[:n]
		for len(rest) > 0 {
			de, used, derr := refcodec.DecodeStat(rest)
			if derr != nil {
				break
			}
			if p, hit := d.env.sentInodes[de.Qid.Path]; hit && !d.traced {
				d.bad("listing-of-outside-object", "%s: a directory listing contains %q, inode of %s outside the export", what, de.Name, p)
				return
			}
			rest = rest[used:]
		}
	}
}

// followUps exercises a fid in every mutating way; whatever it names must be inside.
func (d *c15driver) followUps(f p9p.Fid, what string) {
	ctx := context.Background()
	d.probe(f, what)
	d.sess.WStat(ctx, f, p9p.Dir{Mode: 0600, Length: ^uint64(0)})
	d.sess.WStat(ctx, f, p9p.Dir{Mode: ^uint32(0), Length: 3})
	g := d.fid()
	if _, err := d.sess.Walk(ctx, f, g); err == nil {
		if _, _, err := d.sess.Open(ctx, g, p9p.ORDWR|p9p.OTRUNC); err == nil {
			d.sess.Write(ctx, g, []byte("overwritten-through-9p"), 0)
		}
		d.sess.Clunk(ctx, g)
	}
	g = d.fid()
	if _, err := d.sess.Walk(ctx, f, g); err == nil {
		d.sess.Remove(ctx, g)
	}
}

// depthFid returns a fid at the given depth of the tree a/b/c.
func (d *c15driver) depthFid(depth int) (p9p.Fid, bool) {
	names := []string{"a", "b", "c"}[:depth]
	f := d.fid()
	qs, err := d.sess.Walk(context.Background(), 0, f, names...)
	return f, err == nil && len(qs) == depth
}

func (d *c15driver) run(seqNo int) {
	r := d.w.Rng
	ctx := context.Background()
	depth := r.Intn(4)
	base, ok := d.depthFid(depth)
	if !ok {
		return
	}
	hn := c15hostile[r.Intn(len(c15hostile))]
	if r.Intn(40) == 0 {
		hn = strings.Repeat("H", 60000)
	}
	key := ""
	switch field := r.Intn(11); {
	case field == 10: // attach with a hostile tree name
		an := hn
		if r.Intn(2) == 0 {
			an = []string{"..", "../..", "../outside", "/..", "a/../..", "../exportX", "a/b/../../..", "/../outside/dir", "..//", "a/..", "/"}[r.Intn(11)]
		}
		nf := d.fid()
		_, err := d.sess.Attach(ctx, nf, p9p.NOFID, "u", an)
		d.trace = append(d.trace, fmt.Sprintf("Attach(aname=%.80q) err=%v", an, err))
		d.w.Count("field:attach", 1)
		if err == nil {
			d.w.Count("requests_accepted", 1)
			what := fmt.Sprintf("root fid of Attach(aname=%.60q)", an)
			// read-only follow-ups: whatever tree the attach selected must lie inside the export
			if st, err := d.sess.Stat(ctx, nf); err == nil && !d.traced {
				inside := map[uint64]bool{}
				filepath.Walk(d.env.root, func(p string, info os.FileInfo, err error) error {
					if err == nil {
						inside[info.Sys().(*syscall.Stat_t).Ino] = true
					}
					return nil
				})
				if !inside[st.Qid.Path] {
					d.bad("attach-root-outside-export", "%s: the attach root has inode %d, which belongs to no object inside the export", what, st.Qid.Path)
					return
				}
			}
			d.probe(nf, what)
			g := d.fid()
			if qs, err := d.sess.Walk(ctx, nf, g, "SECRET"); err == nil && len(qs) == 1 {
				d.probe(g, what+" then Walk(SECRET)")
				d.sess.Clunk(ctx, g)
			}
			d.sess.Clunk(ctx, nf)
		} else {
			d.w.Count("requests_refused", 1)
		}
		key = fmt.Sprintf("attach/%s", nameClass(an))
	case field < 4: // walk names
		var names []string
		switch r.Intn(4) {
		case 0:
			names = []string{hn}
		case 1:
			dot := ".."
			if r.Intn(3) == 0 {
				// a ".." that does not look like one to a byte-wise comparison
				dot = []string{"..\x00", "\x00..", ".\x00."}[r.Intn(3)]
			}
			for i := 0; i < depth+1+r.Intn(4); i++ {
				names = append(names, dot)
			}
			names = append(names, []string{"outside", "victim", "SECRET", "export", "f"}[r.Intn(5)])
		case 2:
			n := 1 + r.Intn(16)
			for i := 0; i < n; i++ {
				names = append(names, c15hostile[r.Intn(len(c15hostile))])
			}
		default:
			names = []string{"..", hn}
		}
		nf := d.fid()
		qs, err := d.sess.Walk(ctx, base, nf, names...)
		d.trace = append(d.trace, fmt.Sprintf("depth%d.Walk(%.80q)", depth, names))
		d.w.Count("field:walk", 1)
		if err == nil && len(qs) == len(names) {
			d.w.Count("requests_accepted", 1)
			d.followUps(nf, fmt.Sprintf("fid reached by Walk(%.60q) from depth %d", names, depth))
			d.sess.Clunk(ctx, nf)
		} else {
			d.w.Count("requests_refused", 1)
		}
		key = fmt.Sprintf("walk/%s/%d/%d", nameClass(names[0]), len(names), depth)
	case field < 7: // create name
		perm := []uint32{0644, p9p.DMDIR | 0755, p9p.DMSYMLINK | 0777, p9p.DMDEVICE | 0666, p9p.DMNAMEDPIPE | 0666, p9p.DMDIR | p9p.DMSYMLINK}[r.Intn(6)]
		nf := d.fid()
		d.sess.Walk(ctx, base, nf)
		_, _, err := d.sess.Create(ctx, nf, hn, perm, p9p.ORDWR)
		d.trace = append(d.trace, fmt.Sprintf("depth%d.Create(%.80q, perm=%#x)", depth, hn, perm))
		d.w.Count("field:create", 1)
		if err == nil {
			d.w.Count("requests_accepted", 1)
			d.sess.Write(ctx, nf, []byte("created-through-9p"), 0)
			d.followUps(nf, fmt.Sprintf("fid of Create(%.60q)", hn))
		} else {
			d.w.Count("requests_refused", 1)
		}
		d.sess.Clunk(ctx, nf)
		key = fmt.Sprintf("create/%s/%#x/%d", nameClass(hn), perm>>20, depth)
	case field < 9: // wstat rename with a hostile name, then keep using the fid
		target := []string{"f", "a/fa", "a/b/fb", "a/b/c/fc", "d", "a/b/c"}[r.Intn(6)]
		nf := d.fid()
		qs, err := d.sess.Walk(ctx, 0, nf, strings.Split(target, "/")...)
		if err != nil || len(qs) != len(strings.Split(target, "/")) {
			return
		}
		dir := p9p.Dir{Mode: ^uint32(0), Length: ^uint64(0), Name: hn}
		if r.Intn(3) == 0 {
			dir.Length = 2 // rename and truncate in one request
		}
		// sometimes preceded by other hostile renames of the same fid (refused or not, the fid must stay inside)
		for k := r.Intn(3); k > 0; k-- {
			pre := c15hostile[r.Intn(len(c15hostile))]
			if r.Intn(2) == 0 {
				pre = []string{"/etc", "/", "/x", "//", "/../x"}[r.Intn(5)]
			}
			perr := d.sess.WStat(ctx, nf, p9p.Dir{Mode: ^uint32(0), Length: ^uint64(0), Name: pre})
			d.trace = append(d.trace, fmt.Sprintf("WStat(%s, name=%.80q) err=%v", target, pre, perr))
			d.w.Count("rename_chains", 1)
		}
		err = d.sess.WStat(ctx, nf, dir)
		d.trace = append(d.trace, fmt.Sprintf("WStat(%s, name=%.80q, length=%d)", target, hn, int64(dir.Length)))
		d.w.Count("field:rename", 1)
		if err == nil {
			d.w.Count("requests_accepted", 1)
		} else {
			d.w.Count("requests_refused", 1)
		}
		// whatever happened: the fid must keep naming something inside the export
		d.w.Count("followups_after_hostile_rename", 1)
		d.followUps(nf, fmt.Sprintf("fid of %s after WStat(name=%.60q) (err=%v)", target, hn, err))
		d.sess.Clunk(ctx, nf)
		key = fmt.Sprintf("rename/%s/%s", nameClass(hn), target)
	default: // the root itself: remove / rename away, also via clones and "..", also of an emptied export
		variant := r.Intn(4)
		nf := d.fid()
		switch variant {
		case 0:
			d.sess.Walk(ctx, 0, nf)
		case 1:
			d.sess.Walk(ctx, 0, nf, "a", "..")
		default:
			d.sess.Walk(ctx, base, nf)
			for i := 0; i < depth; i++ {
				d.sess.Walk(ctx, nf, nf, "..")
			}
		}
		if variant == 3 {
			// empty the export through 9P first
			for _, p := range []string{"a/b/c/fc", "a/b/c", "a/b/fb", "a/b", "a/fa", "a", "d", "f"} {
				g := d.fid()
				if qs, err := d.sess.Walk(ctx, 0, g, strings.Split(p, "/")...); err == nil && len(qs) == len(strings.Split(p, "/")) {
					d.sess.Remove(ctx, g)
				}
			}
			d.w.Count("root:remove-emptied", 1)
			if r.Intn(2) == 0 {
				// a root fid obtained only now, after the root directory has changed
				d.sess.Clunk(ctx, nf)
				nf = d.fid()
				if r.Intn(2) == 0 {
					d.sess.Walk(ctx, 0, nf)
				} else {
					d.sess.Attach(ctx, nf, p9p.NOFID, "u", "")
				}
				d.w.Count("root:fresh-fid-after-change", 1)
			}
		}
		if r.Intn(2) == 0 {
			err := d.sess.Remove(ctx, nf)
			d.trace = append(d.trace, fmt.Sprintf("Remove(root fid, variant %d) err=%v", variant, err))
			d.w.Count("root:remove", 1)
		} else {
			err := d.sess.WStat(ctx, nf, p9p.Dir{Mode: ^uint32(0), Length: ^uint64(0), Name: hn})
			d.trace = append(d.trace, fmt.Sprintf("WStat(root fid, name=%.60q) err=%v", hn, err))
			d.w.Count("root:rename", 1)
			if r.Intn(2) == 0 {
				// whatever that wstat did to the fid, it still names the root: removal stays refused
				rerr := d.sess.Remove(ctx, nf)
				d.trace = append(d.trace, fmt.Sprintf("Remove(same root fid) err=%v", rerr))
				d.w.Count("root:remove-after-rename", 1)
			} else {
				// ... and a file reached through it must stay inside when renamed
				g := d.fid()
				if qs, werr := d.sess.Walk(ctx, nf, g, "f"); werr == nil && len(qs) == 1 {
					d.followUps(g, fmt.Sprintf("file f walked from the root fid after WStat(root, name=%.40q)", hn))
					d.sess.WStat(ctx, g, p9p.Dir{Mode: ^uint32(0), Length: ^uint64(0), Name: "../stolen"})
					d.sess.Clunk(ctx, g)
				}
				d.sess.Clunk(ctx, nf)
			}
		}
		if !d.traced && inodeOf(d.env.root) != d.env.rootIno {
			d.bad("export-root-gone", "the exported root directory was removed or renamed away (inode %d -> %d)", d.env.rootIno, inodeOf(d.env.root))
			return
		}
		key = fmt.Sprintf("root/%d", variant)
	}
	d.sess.Clunk(ctx, base)
	d.w.NT(key)
}

func runC15(w *mon.W) {
	// ---- in-process observers
	n := w.Scale(2500, 150000)
	for i := 0; i < n; i++ {
		if !w.Mine(i) {
			continue
		}
		env, err := newC15Env(w.Dir, fmt.Sprintf("%d", w.Shard))
		if err != nil {
			w.Inconclusive("cannot build the sentinel tree: %v", err)
			return
		}
		ctx := context.Background()
		sess := p9p.SFileSys(ufs.NewServer(ctx, env.root))
		if _, err := sess.Attach(ctx, 0, p9p.NOFID, "u", ""); err != nil {
			w.Inconclusive("attach: %v", err)
			os.RemoveAll(env.base)
			continue
		}
		d := &c15driver{w: w, sess: sess, env: env, next: 10}
		w.Case("C15 in-process sequence #%d", i)
		for k := 0; k < 1+w.Rng.Intn(6) && !d.failed; k++ {
			w.Eval()
			d.run(i)
		}
		sess.Stop(nil)
		if !d.failed {
			w.Count("sentinel_snapshots_compared", 1)
			if p := env.sentinelDiff(); p != "" {
				d.bad("outside-object-changed", "%s", p)
			} else if inodeOf(env.root) != env.rootIno {
				d.bad("export-root-gone", "the exported root directory was removed or renamed away")
			}
		}
		if w.SampleDue(499) {
			w.Sample(map[string]interface{}{"observer": "in-process", "requests": d.trace})
		}
		os.RemoveAll(env.base)
	}
	// ---- a server constructed with a relative root while the working directory has vanished
	c15VanishedCwd(w)
	// ---- traced half: one traced server per shard
	c15Traced(w, w.Scale(60, 4000))
}

// ServeUFS is the traced child: it serves dir over the unix socket sock until the peer disconnects.
func ServeUFS(root, sock string) int {
	l, err := net.Listen("unix", sock)
	if err != nil {
		fmt.Fprintln(os.Stderr, "listen:", err)
		return 2
	}
	os.Stat("/__verif_serving__") // marker: everything after this line in the trace is serving
	for {
		c, err := l.Accept()
		if err != nil {
			return 0
		}
		ctx := context.Background()
		p9p.ServeConn(ctx, c, p9p.SSession(p9p.SFileSys(ufs.NewServer(ctx, root))))
		c.Close()
		if _, err := os.Stat(sock + ".stop"); err == nil {
			return 0
		}
	}
}

var straceQuoted = regexp.MustCompile(`"((?:[^"\\]|\\.)*)"`)

func unescapeStrace(s string) string {
	var b []byte
	for i := 0; i < len(s); i++ {
		if s[i] != '\\' || i+1 >= len(s) {
			b = append(b, s[i])
			continue
		}
		i++
		switch c := s[i]; {
		case c == 'n':
			b = append(b, '\n')
		case c == 't':
			b = append(b, '\t')
		case c == 'r':
			b = append(b, '\r')
		case c >= '0' && c <= '7':
			j := i
			for j < len(s) && j < i+3 && s[j] >= '0' && s[j] <= '7' {
				j++
			}
			v, _ := strconv.ParseUint(s[i:j], 8, 8)
			b = append(b, byte(v))
			i = j - 1
		case c == 'x' && i+2 < len(s):
			v, _ := strconv.ParseUint(s[i+1:i+3], 16, 8)
			b = append(b, byte(v))
			i += 2
		default:
			b = append(b, c)
		}
	}
	return string(b)
}

func c15Traced(w *mon.W, seqs int) {
	if _, err := exec.LookPath("strace"); err != nil {
		w.Inconclusive("strace not available: traced half skipped")
		return
	}
	env, err := newC15Env(w.Dir, fmt.Sprintf("traced%d", w.Shard))
	if err != nil {
		return
	}
	defer os.RemoveAll(env.base)
	aux, err := os.MkdirTemp(w.Dir, "c15aux-")
	if err != nil {
		return
	}
	defer os.RemoveAll(aux)
	sock := filepath.Join(aux, "sock")
	tracePath := filepath.Join(aux, "trace.log")
	exe, _ := os.Executable()
	cmd := exec.Command("strace", "-f", "-qq", "-s", "70000", "-e", "trace=%file,truncate,ftruncate", "-o", tracePath, exe, "-ufs-serve", env.root, "-sock", sock)
	cmd.Stdout, cmd.Stderr = nil, nil
	if err := cmd.Start(); err != nil {
		w.Inconclusive("cannot start strace: %v", err)
		return
	}
	defer func() {
		cmd.Process.Kill()
		cmd.Wait()
	}()
	var conn net.Conn
	for i := 0; i < 400; i++ {
		conn, err = net.Dial("unix", sock)
		if err == nil {
			break
		}
		time.Sleep(10 * time.Millisecond)
	}
	if conn == nil {
		w.Inconclusive("traced server did not come up (strace may not be permitted here): %v", err)
		return
	}
	w.Case("C15 traced run on shard %d", w.Shard)
	ctx, cancel := context.WithTimeout(context.Background(), 3*time.Minute)
	defer cancel()
	sess, err := p9p.CSession(ctx, conn)
	if err != nil {
		w.Inconclusive("CSession to the traced server: %v", err)
		return
	}
	if _, err := sess.Attach(ctx, 0, p9p.NOFID, "u", ""); err != nil {
		w.Inconclusive("attach to the traced server: %v", err)
		return
	}
	d := &c15driver{w: w, sess: sess, env: env, next: 10, traced: true}
	for k := 0; k < seqs && !d.failed; k++ {
		w.Eval()
		d.run(k)
		if k%10 == 9 {
			// rebuild what the workload destroyed so that later requests have targets (done by the harness process, not the server)
			for _, dd := range []string{"a", "a/b", "a/b/c", "d"} {
				os.MkdirAll(filepath.Join(env.root, dd), 0755)
			}
			for _, f := range []string{"f", "a/fa", "a/b/fb", "a/b/c/fc"} {
				os.WriteFile(filepath.Join(env.root, f), []byte("inside"), 0644)
			}
		}
	}
	os.WriteFile(sock+".stop", nil, 0644)
	conn.Close()
	done := make(chan struct{})
	go func() { cmd.Wait(); close(done) }()
	select {
	case <-done:
	case <-time.After(20 * time.Second):
		cmd.Process.Kill()
		<-done
	}
	// judge the trace
	f, err := os.Open(tracePath)
	if err != nil {
		w.Inconclusive("no trace file: %v", err)
		return
	}
	defer f.Close()
	sc := bufio.NewScanner(f)
	sc.Buffer(make([]byte, 1<<20), 8<<20)
	serving := false
	judged, syscalls := 0, 0
	kinds := map[string]int{}
	for sc.Scan() {
		line := sc.Text()
		if !serving {
			if strings.Contains(line, "/__verif_serving__") {
				serving = true
			}
			continue
		}
		// "pid  syscall(args) = ret"
		fields := strings.SplitN(line, " ", 2)
		if len(fields) < 2 {
			continue
		}
		rest := strings.TrimSpace(fields[1])
		op := rest
		if k := strings.Index(rest, "("); k > 0 {
			op = rest[:k]
		} else {
			continue
		}
		if strings.HasPrefix(op, "---") || strings.HasPrefix(op, "+++") || strings.Contains(op, "resumed") {
			continue
		}
		syscalls++
		kinds[op]++
		for _, m := range straceQuoted.FindAllStringSubmatch(rest, -1) {
			p := unescapeStrace(m[1])
			if p == sock+".stop" || p == sock || strings.HasPrefix(p, "/__verif") {
				continue
			}
			// read-only introspection by the language runtime / libc (thread start-up), exact paths only:
			// anything else under /proc or /sys is judged like any other path
			if (p == "/sys/devices/system/cpu/online" || p == "/sys/kernel/mm/transparent_hugepage/hpage_pmd_size" || p == "/proc/self/auxv") && strings.Contains(rest, "O_RDONLY") {
				w.Count("traced_runtime_introspection_reads", 1)
				continue
			}
			judged++
			if !filepath.IsAbs(p) {
				w.Note("relative path %q in traced syscall %s (not judged)", p, op)
				continue
			}
			cl := filepath.Clean(p)
			if cl != env.root && !strings.HasPrefix(cl, env.root+"/") {
				w.Violate("mismatch", "C15:syscall-outside-export:"+op, fmt.Sprintf("the server process called %s on %q, which is outside the export root %q; trace line: %.300s; requests: %.600s", op, cl, env.root, line, strings.Join(d.trace[max(0, len(d.trace)-6):], "; ")), map[string]interface{}{"line": line})
				break
			}
		}
	}
	if !serving {
		w.Inconclusive("serving marker not found in the strace output")
		return
	}
	w.Count("traced_syscalls_judged", int64(syscalls))
	w.Count("traced_paths_judged", int64(judged))
	w.Count("traced_runs", 1)
	if p := env.sentinelDiff(); p != "" {
		w.Violate("mismatch", "C15:outside-object-changed", "traced run: "+p, nil)
	}
	var ks []string
	for k, v := range kinds {
		ks = append(ks, fmt.Sprintf("%s:%d", k, v))
	}
	sort.Strings(ks)
	w.Sample(map[string]interface{}{"observer": "strace", "requests_sent": len(d.trace), "syscalls_judged": syscalls, "paths_judged": judged, "syscall_kinds": ks})
}

func max(a, b int) int {
	if a > b {
		return a
	}
	return b
}

// c15VanishedCwd constructs the server with a RELATIVE export root at a moment when the
// process's working directory no longer exists (so the root cannot be made absolute), and
// then probes — read-only — whether the session reaches host objects outside any export:
// the host's "/" itself, or the sentinel SECRET by its absolute path.
func c15VanishedCwd(w *mon.W) {
	env, err := newC15Env(w.Dir, fmt.Sprintf("cwd%d", w.Shard))
	if err != nil {
		return
	}
	defer os.RemoveAll(env.base)
	old, err := os.Getwd()
	if err != nil {
		return
	}
	gone := filepath.Join(env.base, "export", "cwdgone")
	if os.Mkdir(gone, 0755) != nil || os.Chdir(gone) != nil {
		return
	}
	os.Remove(gone)
	ctx := context.Background()
	fs := ufs.NewServer(ctx, "export") // relative
	os.Chdir(old)
	w.Case("C15 relative export root constructed while the working directory has vanished")
	w.Eval()
	w.Count("vanished_cwd_probes", 1)
	sess := p9p.SFileSys(fs)
	defer sess.Stop(nil)
	if _, err := sess.Attach(ctx, 0, p9p.NOFID, "u", ""); err != nil {
		return // refused: fine
	}
	if st, err := sess.Stat(ctx, 0); err == nil && st.Qid.Path == inodeOf("/") {
		w.Violate("mismatch", "C15:host-root-exported", "a server constructed with a relative export root (working directory vanished) serves the host's / as its root", nil)
		return
	}
	names := strings.Split(strings.TrimPrefix(filepath.Join(env.base, "outside", "SECRET"), "/"), "/")
	if qs, err := sess.Walk(ctx, 0, 1, names...); err == nil && len(qs) == len(names) {
		if _, _, err := sess.Open(ctx, 1, p9p.OREAD); err == nil {
			buf := make([]byte, 256)
			n, _ := sess.Read(ctx, 1, buf, 0)
			if bytes.Contains(buf[:n], []byte(c15secret)) {
				w.Violate("mismatch", "C15:read-of-outside-object", "a server constructed with a relative export root (working directory vanished) lets a client read a host file by its absolute path", nil)
			}
		}
	}
	w.NT("vanished-cwd")
}
