package props

import (
	"context"
	"errors"
	"fmt"
	"io"
	"strings"
	"sync"
	"time"

	p9p "github.com/frobnitzem/go-p9p"

	"verifharness/fsx"
	"verifharness/mon"
	"verifharness/refcodec"
	"verifharness/wire"
)

// C11: server shutdown is prompt, complete and crash-free at any moment.
func init() {
	register(&mon.Spec{
		ID:    "C11",
		Level: "fault_enumeration",
		Rule: "request scripts (attach, walks onto new fids, in-place walk, open of file and directory, read, create, clunk, remove) are played by a raw 9P client against p9p.ServeConn(SSession(SFileSys(instrumented FS))) on a fault-injecting in-memory connection; a prologue completes request by request, then an in-flight set is sent whose handlers park inside their FS call. " +
			"A fault-free recording gives B inbound bytes and W outbound writes; then ONE fault per run is injected at EVERY index: read error at every inbound byte k in [0,B], peer EOF at every byte k, failure of every reply write j (at once, and with the failing write parked until two further completions are queued behind it), serving-context cancel after every reply count, and serving-context cancel while reply write j is stalled inside the connection's Write (the writer goroutine cannot notice the cancellation); one script runs against a file system that requires authentication and has two auth fids outstanding at the fault, one has a flushed request whose handler ignores the cancellation, its tag reused by a new in-flight request, and the flushed handler completing late; " +
			"each x in-flight handlers that {return an error when cancelled, finish their FS call successfully right after being cancelled, had already finished}. Oracle at quiescence (goroutine states): every in-flight handler's ctx is Done; ServeConn has returned; Handler.Stop ran exactly once; afterwards the fid table (verif hook) holds no bound entry, " +
			"every handle the FS handed out for binding was released exactly once (no leak, no double release, no use after release — including entries bound by handlers that finished after the cancellation); the worker process did not crash. non-trivial = >= 1 handler in flight at the fault; distinct by (script, fault kind, index, in-flight behaviour)",
		Assumptions: []string{
			"handlers return once cancelled (the property's proviso): parked FS calls wake on ctx.Done()",
			"virtual deadlines: promptness is 'returned at quiescence', not a timer; ServeConn's 1 s negotiation timeout is the only real clock and a missed handshake is retried",
			"exhaustive over (script, fault index) for the scripts of the tier; the schedule inside the server (goroutine per request) is sampled by repetition in the thorough tier",
			"requires the verif-tagged fid-table hook",
		},
		Race:      true,
		RaceFiles: []string{"serveconn.go", "sfilesys.go", "ssesssion.go"},
		Shards:    shards(8, 16),
		Timeout:   timeouts(12*time.Minute, 90*time.Minute),
		MinEvals:  200,
		Required:  []string{"fault:read-error", "fault:read-eof", "fault:write-fail", "fault:write-fail-parked", "fault:ctx-cancel", "fault:ctx-cancel-writer-busy", "read_error_as_net_error", "late_completion_of_flushed_request", "ctx_cancelled_while_writer_busy", "auth_fids_at_stop", "inflight:error-on-cancel", "inflight:succeed-after-cancel", "inflight:none", "handlers_in_flight_at_fault", "ctx_done_checks", "serve_returned", "stop_once", "tables_empty", "entries_bound_after_cancel"},
		Run:       runC11,
	})
}

// obsHandler observes the handler interface between ServeConn and SSession.
type obsHandler struct {
	inner p9p.Handler
	mu    sync.Mutex
	ctxs  []context.Context
	done  []bool
	live  int
	stops int
}

func (o *obsHandler) Handle(ctx context.Context, msg p9p.Message) (p9p.Message, error) {
	o.mu.Lock()
	id := len(o.ctxs)
	o.ctxs = append(o.ctxs, ctx)
	o.done = append(o.done, false)
	o.live++
	o.mu.Unlock()
	m, err := o.inner.Handle(ctx, msg)
	o.mu.Lock()
	o.live--
	o.done[id] = true
	o.mu.Unlock()
	return m, err
}

// inFlight returns the contexts of the handlers running right now.
func (o *obsHandler) inFlight() []context.Context {
	o.mu.Lock()
	defer o.mu.Unlock()
	var out []context.Context
	for i, c := range o.ctxs {
		if !o.done[i] {
			out = append(out, c)
		}
	}
	return out
}
func (o *obsHandler) Stop(err error) error {
	o.mu.Lock()
	o.stops++
	o.mu.Unlock()
	return o.inner.Stop(err)
}

type c11step struct {
	msg  p9p.Message
	park bool // the handler parks in its FS call (in-flight set)

	tag             p9p.Tag // explicit tag (0 = the running counter)
	stubborn        bool    // the parked FS call ignores cancellation: it returns only when released
	releaseStubborn bool    // pseudo-step: the stubborn calls are released now (a late completion)
}

func c11Scripts() [][]c11step {
	T := func(m p9p.Message) c11step { return c11step{msg: m} }
	P := func(m p9p.Message) c11step { return c11step{msg: m, park: true} }
	nofid := p9p.NOFID
	base := []c11step{
		T(p9p.MessageTattach{Fid: 0, Afid: nofid, Uname: "u"}),
		T(p9p.MessageTwalk{Fid: 0, Newfid: 1, Wnames: []string{"d"}}),
		T(p9p.MessageTwalk{Fid: 1, Newfid: 2, Wnames: []string{"g"}}),
		T(p9p.MessageTopen{Fid: 2, Mode: p9p.OREAD}),
		T(p9p.MessageTwalk{Fid: 0, Newfid: 3, Wnames: []string{"a"}}),
		T(p9p.MessageTopen{Fid: 3, Mode: p9p.ORDWR}),
		T(p9p.MessageTread{Fid: 3, Count: 16}),
	}
	s1 := append(append([]c11step{}, base...),
		P(p9p.MessageTattach{Fid: 10, Afid: nofid, Uname: "u"}),
		P(p9p.MessageTwalk{Fid: 0, Newfid: 11, Wnames: []string{"d", "e"}}),
		P(p9p.MessageTclunk{Fid: 11}), // pipelined behind the walk that is still reserving fid 11: waits for that fid
		P(p9p.MessageTread{Fid: 3, Count: 8}),
	)
	s2 := append(append([]c11step{}, base...),
		T(p9p.MessageTwalk{Fid: 0, Newfid: 4, Wnames: []string{"d"}}),
		P(p9p.MessageTcreate{Fid: 4, Name: "newf", Perm: 0644, Mode: p9p.ORDWR}),
		P(p9p.MessageTwalk{Fid: 1, Newfid: 1, Wnames: []string{"g"}}), // in place
		P(p9p.MessageTclunk{Fid: 2}),
		P(p9p.MessageTwalk{Fid: 0, Newfid: 12}), // clone
	)
	s3 := append(append([]c11step{}, base...),
		T(p9p.MessageTwalk{Fid: 0, Newfid: 5, Wnames: []string{"b"}}),
		P(p9p.MessageTremove{Fid: 5}),
		P(p9p.MessageTcreate{Fid: 1, Name: "newd", Perm: p9p.DMDIR | 0755, Mode: p9p.OREAD}),
		P(p9p.MessageTstat{Fid: 0}),
		T(p9p.MessageTwalk{Fid: 0, Newfid: 6, Wnames: []string{"d", "f"}}),
	)
	// s4: the file system requires authentication; two auth fids are outstanding when the fault strikes
	s4 := []c11step{
		T(p9p.MessageTauth{Afid: 20, Uname: "u"}),
		T(p9p.MessageTattach{Fid: 0, Afid: nofid, Uname: "u"}),
		T(p9p.MessageTwalk{Fid: 0, Newfid: 1, Wnames: []string{"d"}}),
		T(p9p.MessageTauth{Afid: 21, Uname: "v"}),
		P(p9p.MessageTwalk{Fid: 0, Newfid: 11, Wnames: []string{"d", "e"}}),
		P(p9p.MessageTattach{Fid: 10, Afid: nofid, Uname: "u"}),
	}
	// s5: a request is flushed while its handler (which ignores cancellation) is still inside the file
	// system, its tag is reused by a new request, then the flushed handler completes late; further
	// requests stay in flight. Whatever the fault, the NEW request's handler must be cancelled.
	s5 := append(append([]c11step{}, base...),
		c11step{msg: p9p.MessageTwalk{Fid: 0, Newfid: 11, Wnames: []string{"d", "e"}}, park: true, stubborn: true, tag: 700},
		T(p9p.MessageTflush{Oldtag: 700}),
		c11step{msg: p9p.MessageTattach{Fid: 10, Afid: nofid, Uname: "u"}, park: true, tag: 700},
		c11step{releaseStubborn: true},
		P(p9p.MessageTwalk{Fid: 0, Newfid: 12}),
	)
	return [][]c11step{s1, s2, s3, s4, s5}
}

const (
	c11ErrOnCancel = iota
	c11SucceedAfterCancel
	c11None // nobody in flight: the in-flight set is released before the fault
)

type c11fault struct {
	kind   string // read-error read-eof write-fail write-fail-parked ctx-cancel
	index  int
	behave int
}

type c11run struct {
	w      *mon.W
	fs     *fsx.FS
	sess   p9p.Session
	obs    *obsHandler
	h      *srvH
	script []c11step
	desc   string

	writerBusy    bool
	spun          bool
	flyingAtFault []context.Context // handlers in flight just before the step during which the fault struck

	gmu                sync.Mutex
	parking            bool
	behave             int
	parkedN            int
	releases           []chan struct{}
	stubborn           []chan struct{}
	stubbornNext       bool
	afterCancelSuccess int
}

func (r *c11run) gate(c *fsx.Call) {
	r.gmu.Lock()
	if !r.parking || c.Ctx == nil {
		r.gmu.Unlock()
		return
	}
	rel := make(chan struct{})
	if r.stubbornNext {
		// this call belongs to the stubborn step: it does not look at its context
		r.stubbornNext = false
		r.stubborn = append(r.stubborn, rel)
		r.gmu.Unlock()
		<-rel
		return
	}
	r.releases = append(r.releases, rel)
	r.parkedN++
	behave := r.behave
	r.gmu.Unlock()
	select {
	case <-c.Ctx.Done():
		if behave == c11ErrOnCancel {
			c.Fault = fsx.FaultErr
		} else {
			r.gmu.Lock()
			r.afterCancelSuccess++
			r.gmu.Unlock()
		}
	case <-rel:
	}
}

func (r *c11run) releaseAll() {
	r.gmu.Lock()
	for _, ch := range r.stubborn {
		close(ch)
	}
	r.stubborn = nil
	for _, ch := range r.releases {
		close(ch)
	}
	r.releases = nil
	r.parking = false // file-system calls made from now on pass straight through
	r.gmu.Unlock()
}

func (r *c11run) releaseStubborn() {
	r.gmu.Lock()
	for _, ch := range r.stubborn {
		close(ch)
	}
	r.stubborn = nil
	r.gmu.Unlock()
}

func (r *c11run) releaseN(n int) {
	r.gmu.Lock()
	for n > 0 && len(r.releases) > 0 {
		close(r.releases[0])
		r.releases = r.releases[1:]
		n--
	}
	r.gmu.Unlock()
}

func (r *c11run) bad(kind, sig, format string, a ...interface{}) {
	r.w.Violate(kind, "C11:"+sig, fmt.Sprintf(format, a...)+"; "+r.desc, map[string]interface{}{"case": r.desc})
}

func newC11(w *mon.W, script []c11step, desc string) *c11run {
	r := &c11run{w: w, script: script, desc: desc}
	for attempt := 0; attempt < 3; attempt++ {
		r.fs = fsx.New()
		r.fs.Gate = r.gate
		for _, st := range script {
			if _, ok := st.msg.(p9p.MessageTauth); ok && st.msg != nil {
				r.fs.AuthRequired = true
			}
		}
		r.sess = p9p.SFileSys(r.fs)
		r.obs = &obsHandler{inner: p9p.SSession(r.sess)}
		h, err := newSrvH(r.obs, 8192, 1<<20)
		r.h = h
		if err == nil {
			return r
		}
		h.close()
	}
	w.Inconclusive("handshake failed three times")
	return nil
}

// play runs the script up to the in-flight set being parked. A fault whose index falls
// inside the script is armed before the frame/write it hits. Returns false if the
// connection died early (which is fine: the end-of-run checks still apply).
func (r *c11run) play(f *c11fault) {
	tag := p9p.Tag(1)
	inBase, wBase := r.h.conn.Counts()
	replies := 0
	sent := 0
	if f != nil {
		switch f.kind {
		case "read-error":
			r.h.conn.ReadFailAt = inBase + f.index
			r.h.conn.ReadErr = errors.New("injected read error")
			if f.index%2 == 1 {
				// a permanent network error (a net.Error that is neither a timeout nor temporary)
				r.h.conn.ReadErr = &wire.NetErr{Msg: "read mem: connection reset by peer"}
				r.w.Count("read_error_as_net_error", 1)
			}
		case "read-eof":
			r.h.conn.ReadFailAt = inBase + f.index
			r.h.conn.ReadErr = io.EOF
		case "write-fail":
			r.h.conn.WriteFailAt = wBase + f.index
			r.h.conn.WriteErr = errors.New("injected write failure")
		case "write-fail-parked", "ctx-cancel-writer-busy":
			r.h.conn.WriteFailAt = wBase + f.index
			r.h.conn.WriteErr = errors.New("injected write failure")
			r.h.conn.WriteGate = make(chan struct{})
			r.h.conn.WriteParked = make(chan struct{})
		}
		r.behave = f.behave
	}
	for _, st := range r.script {
		if r.h.served() {
			return
		}
		if f != nil && f.kind == "ctx-cancel" && replies == f.index && !st.park {
			break
		}
		if st.releaseStubborn {
			r.releaseStubborn()
			if !settle() {
				r.w.Inconclusive("watchdog")
				return
			}
			r.w.Count("late_completion_of_flushed_request", 1)
			replies += len(r.h.take())
			continue
		}
		if st.park {
			r.gmu.Lock()
			r.parking = true
			r.stubbornNext = st.stubborn
			r.gmu.Unlock()
		}
		before := r.obs.inFlight()
		useTag := tag
		if st.tag != 0 {
			useTag = st.tag
		}
		r.h.send(&p9p.Fcall{Type: st.msg.Type(), Tag: useTag, Message: st.msg})
		tag++
		sent++
		if !settle() {
			if n := r.h.conn.ReadsAfterFail(); n > 20000 {
				r.bad("hang", "server-spins-on-failed-connection", "the connection's reads fail permanently (%v) but the server keeps reading: %d reads after the failure", r.h.conn.ReadErr, n)
				r.spun = true
				return
			}
			r.w.Inconclusive("watchdog")
			return
		}
		if r.h.served() {
			r.flyingAtFault = before
			return
		}
		if !st.park {
			replies += len(r.h.take())
		}
		if f != nil && f.kind == "ctx-cancel-writer-busy" {
			select {
			case <-r.h.conn.WriteParked:
				// a reply is being written and the write does not complete: the context is cancelled in this state
				r.writerBusy = true
				return
			default:
			}
		}
		if f != nil && f.kind == "write-fail-parked" {
			select {
			case <-r.h.conn.WriteParked:
				// the failing write is parked: queue work behind it, then let it fail —
				// either two more completions, or a Tflush whose reply the serve loop must hand to the (busy) writer
				if f.index%2 == 0 {
					r.releaseN(2)
				} else {
					r.h.send(&p9p.Fcall{Type: p9p.Tflush, Tag: 900, Message: p9p.MessageTflush{Oldtag: tag - 1}})
					r.w.Count("flush_queued_behind_parked_write", 1)
				}
				settle()
				close(r.h.conn.WriteGate)
				r.h.conn.WriteParked = make(chan struct{}) // not reused
				settle()
				return
			default:
			}
		}
	}
}

func runC11(w *mon.W) {
	scripts := c11Scripts()
	reps := w.Scale(1, 24)
	idx := 0
	for rep := 0; rep < reps; rep++ {
		for si, script := range scripts {
			// recording run
			B, W := c11Record(w, script, si)
			if B == 0 {
				continue
			}
			var faults []c11fault
			dense := 1
			if !w.Thorough() {
				dense = 2
			}
			for _, beh := range []int{c11ErrOnCancel, c11SucceedAfterCancel, c11None} {
				for _, k := range c11Offsets(script, dense) {
					faults = append(faults, c11fault{"read-error", k, beh}, c11fault{"read-eof", k, beh})
				}
				for j := 1; j <= W+1; j++ {
					faults = append(faults, c11fault{"write-fail", j, beh}, c11fault{"write-fail-parked", j, beh})
				}
				for e := 0; e <= W+1; e++ {
					faults = append(faults, c11fault{"ctx-cancel", e, beh})
				}
				for j := 1; j <= W+1; j++ {
					faults = append(faults, c11fault{"ctx-cancel-writer-busy", j, beh})
				}
			}
			for _, f := range faults {
				idx++
				if w.Mine(idx) {
					f := f
					c11Run(w, script, si, &f)
				}
			}
		}
	}
}

// c11Offsets returns the inbound byte offsets at which read faults are injected:
// every byte of the frames of the in-flight part, and for the prologue (where no
// handler is in flight) the frame boundaries and one offset inside each frame.
func c11Offsets(script []c11step, dense int) []int {
	var out []int
	off := 0
	inflight := false
	for _, st := range script {
		if st.msg == nil {
			continue
		}
		n := len(refcodec.MustFrame(&p9p.Fcall{Type: st.msg.Type(), Tag: 1, Message: st.msg}))
		if st.park {
			inflight = true
		}
		if inflight {
			for k := 0; k < n; k += dense {
				out = append(out, off+k)
			}
		} else {
			out = append(out, off, off+5)
		}
		off += n
	}
	return append(out, off)
}

func c11Record(w *mon.W, script []c11step, si int) (B, W int) {
	r := newC11(w, script, fmt.Sprintf("recording run of script %d", si))
	if r == nil {
		return 0, 0
	}
	in0, w0 := r.h.conn.Counts()
	r.play(nil)
	in1, w1 := r.h.conn.Counts()
	r.releaseAll()
	settle()
	r.h.close()
	return in1 - in0, w1 - w0
}

func c11Run(w *mon.W, script []c11step, si int, f *c11fault) {
	beh := []string{"error-on-cancel", "succeed-after-cancel", "none"}[f.behave]
	desc := fmt.Sprintf("script %d, fault %s at index %d, in-flight handlers: %s", si, f.kind, f.index, beh)
	w.Case("C11 %s", desc)
	r := newC11(w, script, desc)
	if r == nil {
		return
	}
	w.Eval()
	w.Count("fault:"+f.kind, 1)
	w.Count("inflight:"+beh, 1)
	spinProbe = func() bool { return r.h.conn.ReadsAfterFail() > 20000 }
	defer func() { spinProbe = nil }()
	r.play(f)
	if r.spun {
		r.releaseAll()
		r.h.close()
		return
	}
	if f.behave == c11None {
		r.releaseAll()
		if !settle() {
			w.Inconclusive("watchdog")
			return
		}
	}
	// which handlers are in flight at the fault?
	flying := r.obs.inFlight()
	if r.h.served() {
		flying = r.flyingAtFault
	}
	inflight := len(flying)
	if inflight > 0 {
		w.Count("handlers_in_flight_at_fault", int64(inflight))
	}
	// apply the faults that strike "now" (the byte/write faults may already have struck)
	switch f.kind {
	case "ctx-cancel":
		r.h.cancel()
	case "ctx-cancel-writer-busy":
		if !r.writerBusy && !r.h.served() && f.behave != c11None {
			// the write to be stalled is the first reply of the in-flight set: let one handler complete
			r.releaseN(1)
			settle()
			select {
			case <-r.h.conn.WriteParked:
				r.writerBusy = true
			default:
			}
			flying = r.obs.inFlight()
			inflight = len(flying)
		}
		if r.writerBusy {
			w.Count("ctx_cancelled_while_writer_busy", 1)
		}
		r.h.cancel()
		defer func() {
			// cleanup only, after the verdict: let the stalled write fail
			select {
			case <-r.h.conn.WriteGate:
			default:
				close(r.h.conn.WriteGate)
			}
		}()
	case "write-fail", "write-fail-parked":
		if !r.h.served() {
			// the failing write has not been made yet: it is one of the replies of the
			// in-flight set. Let those handlers complete so that their replies hit it.
			if r.h.conn.WriteGate != nil {
				select {
				case <-r.h.conn.WriteGate:
				default:
					close(r.h.conn.WriteGate)
				}
			}
			r.releaseAll()
			settle()
			flying = r.obs.inFlight() // they completed normally before the write failed
			inflight = len(flying)
		}
		if !r.h.served() && r.h.conn.WriteFailed() {
			r.bad("hang", "serving-continues-after-write-failure", "a reply write failed (%v) and the process is quiescent, but ServeConn has not returned", r.h.conn.WriteErr)
			r.releaseAll()
			r.h.close()
			return
		}
		if !r.h.served() {
			r.h.cli.Close() // no reply write was left to fail: the peer goes away instead
		}
	default:
		if !r.h.served() {
			r.h.cli.CloseWrite()
		}
	}
	// the property's proviso: handlers return once cancelled. The stubborn handler (which
	// ignores its context until released) is let go now, after the fault.
	r.releaseStubborn()
	q := mon.AwaitQuiesce(r.h.serveDone)
	if q.Hung {
		r.bad("hang", "serve-did-not-return:"+f.kind+":"+q.Sites, "ServeConn has not returned although the process is quiescent after the fault; blocked at %s", q.Sites)
		r.releaseAll()
		r.h.close()
		return
	}
	if q.Inconclusive {
		if n := r.h.conn.ReadsAfterFail(); n > 20000 {
			r.bad("hang", "server-spins-on-failed-connection", "the connection's reads fail permanently (%v) but the server keeps reading: %d reads after the failure", r.h.conn.ReadErr, n)
			r.releaseAll()
			r.h.close()
			return
		}
		w.Inconclusive("watchdog waiting for ServeConn: %s", desc)
		r.releaseAll()
		r.h.close()
		return
	}
	w.Count("serve_returned", 1)
	settle()
	// every handler's context must be cancelled by now
	r.obs.mu.Lock()
	stops, live := r.obs.stops, r.obs.live
	r.obs.mu.Unlock()
	for i, c := range flying {
		w.Count("ctx_done_checks", 1)
		if c.Err() == nil {
			r.bad("mismatch", "handler-ctx-not-cancelled", "after ServeConn returned the context of in-flight handler #%d of %d is not cancelled", i, len(flying))
			return
		}
	}
	if live != 0 {
		r.bad("mismatch", "handlers-still-running", "%d handler(s) are still running after ServeConn returned", live)
		return
	}
	if stops != 1 {
		r.bad("mismatch", "stop-count", "Handler.Stop ran %d times", stops)
		return
	}
	w.Count("stop_once", 1)
	r.gmu.Lock()
	w.Count("entries_bound_after_cancel", int64(r.afterCancelSuccess))
	r.gmu.Unlock()
	// nothing bound, everything released exactly once
	if tab, ok := p9p.VerifFidTable(r.sess); ok {
		for _, e := range tab {
			if e.Locked {
				r.bad("hang", "fid-locked-after-stop", "fid %d is still locked after Stop", e.Fid)
				return
			}
			if e.Ent != nil {
				r.bad("leak", "fid-bound-after-stop", "fid %d is still bound (%v) after Stop and after all handlers returned", e.Fid, e.Ent)
				return
			}
		}
		w.Count("tables_empty", 1)
		if r.fs.AuthRequired {
			// what is left in the table after Stop are the auth fids (no entry bound)
			w.Count("auth_fids_at_stop", int64(len(tab)))
		}
	}
	if ps := r.fs.Problems(); len(ps) > 0 {
		r.bad(ps[0].Kind, ps[0].Kind, "file-system monitor: %s", ps[0].Msg)
		return
	}
	for _, p := range r.fs.FinalCheck() {
		r.bad(p.Kind, p.Kind+":final", "after Stop: %s", p.Msg)
		return
	}
	r.h.close()
	if inflight > 0 {
		w.NT(fmt.Sprintf("%d/%s/%d/%s", si, f.kind, f.index, beh))
	}
	if w.SampleDue(151) {
		var ss []string
		for _, st := range r.script {
			if st.msg == nil {
				ss = append(ss, "[the flushed handler completes late]")
				continue
			}
			s := refcodec.Describe(&p9p.Fcall{Type: st.msg.Type(), Message: st.msg})
			if st.park {
				s += " [parks in FS]"
			}
			ss = append(ss, s)
		}
		w.Sample(map[string]interface{}{"script": ss, "fault": f.kind, "index": f.index, "in_flight_behaviour": beh, "handlers_in_flight_at_fault": inflight, "fs_calls": r.fs.Calls()})
	}
	_ = strings.Join
}
