package props

import (
	"context"
	"fmt"
	"runtime"
	"strings"
	"sync"
	"time"

	p9p "github.com/frobnitzem/go-p9p"

	"verifharness/mon"
	"verifharness/refcodec"
	"verifharness/wire"
)

// settle waits until every goroutine other than the caller is parked: everything that
// could happen as a consequence of the last stimulus has happened. One stop-the-world
// snapshot is conclusive here because no timers or external events are in play (the
// only timer, ServeConn's negotiation timeout, wakes nobody). Returns false only if
// the outer wall-clock watchdog fires (inconclusive).
// spinProbe, if set, lets settle give up early when the code under test is known to be
// spinning (a livelock never becomes quiet); the caller then decides what that means.
var spinProbe func() bool

func settle() bool {
	start := time.Now()
	for i := 0; ; i++ {
		if q, _ := mon.QuietNow(); q {
			return true
		}
		if i%200 == 199 && spinProbe != nil && spinProbe() {
			return false
		}
		if i < 50 {
			runtime.Gosched()
		} else {
			time.Sleep(20 * time.Microsecond)
		}
		if i%1000 == 999 && time.Since(start) > mon.Watchdog {
			return false
		}
	}
}

// ---- scripted handler

type hResult struct {
	msg p9p.Message
	err error
}

type invocation struct {
	id        int
	msg       p9p.Message
	ctx       context.Context
	gate      chan hResult
	honour    bool // return ctx.Err() as soon as the context is cancelled
	returned  bool
	sawDone   bool // the handler observed ctx.Done() before returning
	doneAtRet bool
}

type scriptHandler struct {
	mu     sync.Mutex
	invs   []*invocation
	stops  []error
	honour func(msg p9p.Message) bool
	// instant, if set, answers without parking
	instant func(msg p9p.Message) (p9p.Message, error, bool)
}

func (h *scriptHandler) Handle(ctx context.Context, msg p9p.Message) (p9p.Message, error) {
	if h.instant != nil {
		if m, err, ok := h.instant(msg); ok {
			h.mu.Lock()
			h.invs = append(h.invs, &invocation{id: len(h.invs), msg: msg, ctx: ctx, returned: true})
			h.mu.Unlock()
			return m, err
		}
	}
	inv := &invocation{msg: msg, ctx: ctx, gate: make(chan hResult, 1)}
	h.mu.Lock()
	inv.id = len(h.invs)
	if h.honour != nil {
		inv.honour = h.honour(msg)
	}
	h.invs = append(h.invs, inv)
	h.mu.Unlock()
	var r hResult
	if inv.honour {
		select {
		case r = <-inv.gate:
		case <-ctx.Done():
			r = hResult{err: ctx.Err()}
			h.mu.Lock()
			inv.sawDone = true
			h.mu.Unlock()
		}
	} else {
		r = <-inv.gate
	}
	h.mu.Lock()
	inv.returned = true
	inv.doneAtRet = ctx.Err() != nil
	h.mu.Unlock()
	return r.msg, r.err
}

func (h *scriptHandler) Stop(err error) error {
	h.mu.Lock()
	h.stops = append(h.stops, err)
	h.mu.Unlock()
	return err
}

func (h *scriptHandler) snapshot() []*invocation {
	h.mu.Lock()
	defer h.mu.Unlock()
	return append([]*invocation{}, h.invs...)
}

func (h *scriptHandler) count() int { h.mu.Lock(); defer h.mu.Unlock(); return len(h.invs) }

func (h *scriptHandler) stopCount() int { h.mu.Lock(); defer h.mu.Unlock(); return len(h.stops) }

// ---- raw client in front of ServeConn

type srvH struct {
	cli, srv  *wire.End
	conn      *wire.Fault // what ServeConn sees
	tap       *wire.Tap
	handler   p9p.Handler
	sh        *scriptHandler
	ctx       context.Context
	cancel    context.CancelFunc
	serveDone chan struct{}
	serveErr  error
	msize     int

	mu      sync.Mutex
	replies []*p9p.Fcall
	rawIn   [][]byte
	readErr error
	rdDone  chan struct{}
	pause   chan struct{} // while non-nil the raw client does not read (stalls the server's writer)
}

func (h *srvH) pauseReads() {
	h.mu.Lock()
	h.pause = make(chan struct{})
	h.mu.Unlock()
}

func (h *srvH) resumeReads() {
	h.mu.Lock()
	if h.pause != nil {
		close(h.pause)
		h.pause = nil
	}
	h.mu.Unlock()
}

// newSrvH starts ServeConn on an in-memory connection and performs the version
// handshake proposing msize. If handler is nil a scriptHandler is used.
func newSrvH(handler p9p.Handler, msize uint32, bufCap int) (*srvH, error) {
	h := &srvH{serveDone: make(chan struct{}), rdDone: make(chan struct{})}
	h.cli, h.srv = wire.BPipe(bufCap)
	h.conn = wire.NewFault(h.srv)
	h.ctx, h.cancel = context.WithCancel(context.Background())
	if handler == nil {
		h.sh = &scriptHandler{}
		handler = h.sh
	} else if sh, ok := handler.(*scriptHandler); ok {
		h.sh = sh
	}
	h.handler = handler
	go func() {
		h.serveErr = p9p.ServeConn(h.ctx, h.conn, handler)
		close(h.serveDone)
	}()
	go h.reader()
	h.send(&p9p.Fcall{Type: p9p.Tversion, Tag: p9p.NOTAG, Message: p9p.MessageTversion{MSize: msize, Version: "9P2000"}})
	if !settle() {
		return h, fmt.Errorf("watchdog during handshake")
	}
	rs := h.take()
	if len(rs) != 1 {
		return h, fmt.Errorf("handshake: %d replies", len(rs))
	}
	rv, ok := rs[0].Message.(p9p.MessageRversion)
	if !ok {
		return h, fmt.Errorf("handshake: got %v", rs[0])
	}
	h.msize = int(rv.MSize)
	return h, nil
}

func (h *srvH) reader() {
	defer close(h.rdDone)
	var acc []byte
	buf := make([]byte, 1<<16)
	for {
		h.mu.Lock()
		p := h.pause
		h.mu.Unlock()
		if p != nil {
			<-p
		}
		n, err := h.cli.Read(buf)
		acc = append(acc, buf[:n]...)
		for len(acc) >= 4 {
			sz := int(uint32(acc[0]) | uint32(acc[1])<<8 | uint32(acc[2])<<16 | uint32(acc[3])<<24)
			if sz < 7 || len(acc) < sz {
				break
			}
			fr := append([]byte{}, acc[:sz]...)
			acc = acc[sz:]
			fc, derr := refcodec.DecodeFrame(fr)
			h.mu.Lock()
			h.rawIn = append(h.rawIn, fr)
			if derr != nil {
				fc = &p9p.Fcall{Type: p9p.FcallType(fr[4]), Tag: p9p.Tag(uint16(fr[5]) | uint16(fr[6])<<8)}
			}
			h.replies = append(h.replies, fc)
			h.mu.Unlock()
		}
		if err != nil {
			h.mu.Lock()
			h.readErr = err
			h.mu.Unlock()
			return
		}
	}
}

func (h *srvH) send(fc *p9p.Fcall) error {
	b, err := refcodec.Frame(fc)
	if err != nil {
		return err
	}
	_, err = h.cli.Write(b)
	return err
}

func (h *srvH) sendRaw(b []byte) error {
	_, err := h.cli.Write(b)
	return err
}

// take returns and clears the replies received so far.
func (h *srvH) take() []*p9p.Fcall {
	h.mu.Lock()
	defer h.mu.Unlock()
	r := h.replies
	h.replies = nil
	return r
}

func (h *srvH) served() bool {
	select {
	case <-h.serveDone:
		return true
	default:
		return false
	}
}

// close tears the connection down and waits for ServeConn (via quiescence, so that a
// ServeConn that never returns is noticed and reported by the caller).
func (h *srvH) close() (returned bool, q mon.QuiesceResult) {
	h.cli.Close()
	h.cancel()
	q = mon.AwaitQuiesce(h.serveDone)
	return q.Done, q
}

func enameOf(err error) string {
	switch v := err.(type) {
	case p9p.MessageRerror:
		return v.Ename
	case *p9p.MessageRerror:
		return v.Ename
	}
	return err.Error()
}

func describeReplies(rs []*p9p.Fcall) string {
	var out []string
	for _, r := range rs {
		out = append(out, refcodec.Describe(r))
	}
	return "[" + strings.Join(out, "; ") + "]"
}
