module verifharness

go 1.20

require (
	github.com/anishathalye/porcupine v1.3.0
	github.com/frobnitzem/go-p9p v0.0.0
)

replace github.com/frobnitzem/go-p9p => /repo
