// check runs one property's workload under its monitors.
//
//	check -prop C03 -tier quick [-seed n]          parent: forks shard workers, decides, writes evidence
//	check -worker -prop C03 -tier quick -shard i … child: runs one shard
//	check -needs-race C03                           prints "yes"/"no" (used by run.sh to pick the binary)
package main

import (
	"flag"
	"fmt"
	"os"
	"path/filepath"
	"syscall"

	"verifharness/mon"
	"verifharness/props"
)

func main() {
	var (
		prop      = flag.String("prop", "", "property id")
		tier      = flag.String("tier", "quick", "quick|thorough")
		seed      = flag.Int64("seed", 1, "PRNG seed")
		worker    = flag.Bool("worker", false, "run as shard worker")
		shard     = flag.Int("shard", 0, "")
		nshards   = flag.Int("nshards", 1, "")
		dir       = flag.String("dir", "", "work dir")
		needsRace = flag.String("needs-race", "", "print whether the property wants the race build")
		list      = flag.Bool("list", false, "list properties")
		verifDir  = flag.String("verif", "/verif", "verif directory")
		ufsServe  = flag.String("ufs-serve", "", "serve this directory with ufs over -sock (traced child of C15)")
		sock      = flag.String("sock", "", "unix socket for -ufs-serve")
	)
	flag.Parse()
	if *ufsServe != "" {
		os.Exit(props.ServeUFS(*ufsServe, *sock))
	}
	if *list {
		for _, id := range props.IDs() {
			fmt.Println(id)
		}
		return
	}
	if *needsRace != "" {
		s := props.Get(*needsRace)
		if s != nil && s.Race {
			fmt.Println("yes")
		} else {
			fmt.Println("no")
		}
		return
	}
	spec := props.Get(*prop)
	if spec == nil {
		fmt.Fprintf(os.Stderr, "unknown property %q\n", *prop)
		os.Exit(2)
	}
	if *worker {
		if spec.MemLimitMB > 0 && !spec.Race {
			lim := uint64(spec.MemLimitMB) << 20
			syscall.Setrlimit(syscall.RLIMIT_AS, &syscall.Rlimit{Cur: lim, Max: lim})
		}
		w := mon.NewW(spec.ID, *tier, *seed, *shard, *nshards, *dir)
		spec.Run(w)
		if err := w.Finish(); err != nil {
			fmt.Fprintln(os.Stderr, "finish:", err)
			os.Exit(3)
		}
		return
	}
	exe, err := os.Executable()
	if err != nil {
		exe = os.Args[0]
	}
	exe, _ = filepath.Abs(exe)
	os.Exit(mon.RunParent(spec, exe, *tier, *seed, *verifDir))
}
