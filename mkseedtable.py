#!/usr/bin/env python3
"""mkseedtable.py — regenerate the table of seeded changes in DESIGN.md (between the
seeded-table markers) from /verif/seeded/*/meta.json."""
import json, glob, os, re
rows = []
def _key(d):
    n = os.path.basename(d.rstrip('/'))
    a, b = n.split('-m')
    return (a, int(b))
for d in sorted(glob.glob('/verif/seeded/*/'), key=_key):
    name = os.path.basename(d.rstrip('/'))
    m = json.load(open(d + 'meta.json'))
    summ = ' '.join(str(m.get('summary', '')).split()).replace('|', '/')
    if len(summ) > 150:
        summ = summ[:150] + '...'
    cr = {k: v for k, v in m.get('checks_run', {}).items() if not k.endswith('_witness')}
    caught = [c for c, v in cr.items() if v == 'caught']
    missed = [c for c, v in cr.items() if v != 'caught']
    kind = ''
    for c in caught:
        w = m['checks_run'].get(c + '_witness', '')
        if w.startswith('['):
            kind = w[1:w.index(']')]
            break
    cell = ', '.join(caught) if caught else '—'
    if missed:
        cell += ' (missed by ' + ', '.join(missed) + ')'
    rows.append(f'| {name} | {summ} | {cell} | {kind} |')
table = '| Name | Change | Caught by (quick) | As |\n|---|---|---|---|\n' + '\n'.join(rows)
p = '/verif/DESIGN.md'
s = open(p).read()
b, e = '<!-- seeded-table-begin -->', '<!-- seeded-table-end -->'
if b in s:
    s = s[:s.index(b) + len(b)] + '\n' + table + '\n' + s[s.index(e):]
else:
    # first use: replace the existing table
    m = re.search(r'\| Name \| Change \| Caught by \(quick\) \| As \|\n(\|.*\n)+', s)
    s = s[:m.start()] + b + '\n' + table + '\n' + e + '\n' + s[m.end():]
open(p, 'w').write(s)
print(len(rows), 'rows')
