module findings

go 1.20

require github.com/frobnitzem/go-p9p v0.0.0

replace github.com/frobnitzem/go-p9p => /repo
