// Demonstrations of the genuine defects found in the unchanged tree (DESIGN.md
// section 6). Each test FAILS on the tree before the corresponding "fix:" commit
// and PASSES after it. They are documentation of the failing input / schedule /
// history, not part of the registered checks (the checks find the same defects with
// their own monitors; see known_findings.json).
//
// Run: cd /verif/findings && GOFLAGS=-mod=mod GOPROXY=off GOSUMDB=off go test -count=1 .
package findings

import (
	"bytes"
	"context"
	"encoding/binary"
	"errors"
	"io"
	"net"
	"os"
	"os/exec"
	"runtime"
	"sync"
	"testing"
	"time"

	p9p "github.com/frobnitzem/go-p9p"
	"github.com/frobnitzem/go-p9p/ramfs"
)

// ---------------------------------------------------------------- helpers

type rconn struct {
	r io.Reader
	w bytes.Buffer
}

func (c *rconn) Read(p []byte) (int, error)       { return c.r.Read(p) }
func (c *rconn) Write(p []byte) (int, error)      { return c.w.Write(p) }
func (c *rconn) Close() error                     { return nil }
func (c *rconn) LocalAddr() net.Addr              { return nil }
func (c *rconn) RemoteAddr() net.Addr             { return nil }
func (c *rconn) SetDeadline(time.Time) error      { return nil }
func (c *rconn) SetReadDeadline(time.Time) error  { return nil }
func (c *rconn) SetWriteDeadline(time.Time) error { return nil }

func frame(typ p9p.FcallType, tag uint16, body ...byte) []byte {
	b := make([]byte, 4, 7+len(body))
	binary.LittleEndian.PutUint32(b, uint32(7+len(body)))
	b = append(b, byte(typ), byte(tag), byte(tag>>8))
	return append(b, body...)
}

func le32(v uint32) []byte { b := make([]byte, 4); binary.LittleEndian.PutUint32(b, v); return b }
func le16(v uint16) []byte { b := make([]byte, 2); binary.LittleEndian.PutUint16(b, v); return b }
func str(s string) []byte  { return append(le16(uint16(len(s))), s...) }
func cat(bs ...[]byte) []byte {
	var o []byte
	for _, b := range bs {
		o = append(o, b...)
	}
	return o
}

// runs the named test of this binary in a child so that a panic in a library
// goroutine (which cannot be recovered) is observed as a non-zero exit.
func inChild(t *testing.T, name string) (ran bool) {
	if os.Getenv("FINDINGS_CHILD") == name {
		return false
	}
	cmd := exec.Command(os.Args[0], "-test.run", "^"+name+"$", "-test.count=1")
	cmd.Env = append(os.Environ(), "FINDINGS_CHILD="+name)
	out, err := cmd.CombinedOutput()
	if err != nil {
		tail := out
		if len(tail) > 1500 {
			tail = tail[:1500]
		}
		t.Fatalf("child crashed/failed: %v\n%s", err, tail)
	}
	return true
}

func within(t *testing.T, d time.Duration, what string, f func()) {
	done := make(chan struct{})
	go func() { defer close(done); f() }()
	select {
	case <-done:
	case <-time.After(d):
		buf := make([]byte, 1<<16)
		buf = buf[:runtime.Stack(buf, true)]
		t.Fatalf("%s: did not return within %v\n%s", what, d, buf)
	}
}

// ---------------------------------------------------------------- D1 (C03, C12)

func TestD1_LengthPrefixBelow4Panics(t *testing.T) {
	for prefix := uint32(0); prefix < 4; prefix++ {
		func() {
			defer func() {
				if r := recover(); r != nil {
					t.Errorf("prefix %d: ReadFcall panicked: %v", prefix, r)
				}
			}()
			ch := p9p.NewChannel(&rconn{r: bytes.NewReader(append(le32(prefix), 1, 2, 3, 4, 5, 6, 7, 8))}, 64)
			var fc p9p.Fcall
			if err := ch.ReadFcall(context.Background(), &fc); err == nil {
				t.Errorf("prefix %d: no error", prefix)
			}
		}()
	}
}

// ---------------------------------------------------------------- D2 (C03)

func TestD2_ShortBodyDecodesWithStaleBytes(t *testing.T) {
	// frame 1: a valid Tclunk(fid=0x11223344); frame 2: a Tclunk whose body lacks
	// the fid entirely (size=7). Frame 2 must be an error whatever preceded it.
	f1 := frame(p9p.Tclunk, 1, le32(0x11223344)...)
	f2 := frame(p9p.Tclunk, 2)
	ch := p9p.NewChannel(&rconn{r: bytes.NewReader(cat(f1, f2))}, 64)
	var fc p9p.Fcall
	if err := ch.ReadFcall(context.Background(), &fc); err != nil {
		t.Fatal(err)
	}
	err := ch.ReadFcall(context.Background(), &fc)
	if err == nil {
		t.Fatalf("truncated Tclunk decoded as %v using bytes of the previous frame", &fc)
	}
}

// ---------------------------------------------------------------- D3 (C04)

func allocOf(f func()) uint64 {
	var a, b runtime.MemStats
	runtime.GC()
	runtime.ReadMemStats(&a)
	f()
	runtime.ReadMemStats(&b)
	return b.TotalAlloc - a.TotalAlloc
}

func TestD3_DecoderAllocatesWhatLengthFieldsClaim(t *testing.T) {
	codec := p9p.NewCodec()
	for _, tc := range []struct {
		name string
		in   []byte
	}{
		{"Rread count=256MiB, no data", cat([]byte{byte(p9p.Rread), 1, 0}, le32(256<<20))},
		{"Twrite count=256MiB, no data", cat([]byte{byte(p9p.Twrite), 1, 0}, le32(1), make([]byte, 8), le32(256<<20))},
		{"Twalk nwname=65535, no names", cat([]byte{byte(p9p.Twalk), 1, 0}, le32(1), le32(2), le16(0xFFFF))},
		{"Rwalk nwqid=65535, no qids", cat([]byte{byte(p9p.Rwalk), 1, 0}, le16(0xFFFF))},
	} {
		var fc p9p.Fcall
		var err error
		n := allocOf(func() { err = codec.Unmarshal(tc.in, &fc) })
		if err == nil {
			t.Errorf("%s: decoded without error", tc.name)
		}
		if n > 256<<10 {
			t.Errorf("%s: %d input bytes made the decoder allocate %d bytes", tc.name, len(tc.in), n)
		}
	}
}

// ---------------------------------------------------------------- D16 (C04)

func TestD16_DecodeDirSizeWraps(t *testing.T) {
	for _, sz := range []uint16{0xFFFE, 0xFFFF} {
		func() {
			defer func() {
				if r := recover(); r != nil {
					t.Errorf("size %#x: DecodeDir panicked: %v", sz, r)
				}
			}()
			var d p9p.Dir
			if err := p9p.DecodeDir(p9p.NewCodec(), bytes.NewReader(append(le16(sz), make([]byte, 64)...)), &d); err == nil {
				t.Errorf("size %#x: no error", sz)
			}
		}()
	}
}

// ---------------------------------------------------------------- D4 (C12)

// fake server end of a net.Pipe: answers the version handshake, then runs f.
func fakeServer(t *testing.T, f func(ch p9p.Channel)) (net.Conn, chan struct{}) {
	c, s := net.Pipe()
	done := make(chan struct{})
	go func() {
		defer close(done)
		ch := p9p.NewChannel(s, p9p.DefaultMSize)
		var fc p9p.Fcall
		if err := ch.ReadFcall(context.Background(), &fc); err != nil {
			return
		}
		tv := fc.Message.(p9p.MessageTversion)
		ch.WriteFcall(context.Background(), &p9p.Fcall{Type: p9p.Rversion, Tag: p9p.NOTAG, Message: p9p.MessageRversion{MSize: tv.MSize, Version: tv.Version}})
		f(ch)
	}()
	return c, done
}

func TestD4_ReplyWithUnknownTagKillsClient(t *testing.T) {
	if inChild(t, "TestD4_ReplyWithUnknownTagKillsClient") {
		return
	}
	ctx := context.Background()
	c, _ := fakeServer(t, func(ch p9p.Channel) {
		var fc p9p.Fcall
		ch.ReadFcall(ctx, &fc)
		// reply on a tag nobody asked for, then the real reply
		ch.WriteFcall(ctx, &p9p.Fcall{Type: p9p.Rclunk, Tag: fc.Tag + 100, Message: p9p.MessageRclunk{}})
		ch.WriteFcall(ctx, &p9p.Fcall{Type: p9p.Rclunk, Tag: fc.Tag, Message: p9p.MessageRclunk{}})
	})
	sess, err := p9p.CSession(ctx, c)
	if err != nil {
		t.Fatal(err)
	}
	cctx, cancel := context.WithTimeout(ctx, 2*time.Second)
	defer cancel()
	if err := sess.Clunk(cctx, 1); err != nil {
		t.Fatalf("clunk: %v", err)
	}
}

// ---------------------------------------------------------------- D5 (C07)

type gateHandler struct {
	mu      sync.Mutex
	started chan p9p.Message
	release map[p9p.Fid]chan struct{}
}

func (h *gateHandler) gate(f p9p.Fid) chan struct{} {
	h.mu.Lock()
	defer h.mu.Unlock()
	if h.release[f] == nil {
		h.release[f] = make(chan struct{})
	}
	return h.release[f]
}

// Tstat(fid) parks until its gate is released (ignoring cancellation) and then
// answers with a Dir whose Name identifies the request.
func (h *gateHandler) Handle(ctx context.Context, msg p9p.Message) (p9p.Message, error) {
	m := msg.(p9p.MessageTstat)
	h.started <- msg
	<-h.gate(m.Fid)
	return p9p.MessageRstat{Stat: p9p.Dir{Name: string(rune('A' + m.Fid))}}, nil
}
func (h *gateHandler) Stop(err error) error { return err }

func TestD5_FlushedRequestsLateResultAnswersReusedTag(t *testing.T) {
	ctx, cancel := context.WithCancel(context.Background())
	defer cancel()
	bad := 0
	const rounds = 300
	for i := 0; i < rounds; i++ {
		c, s := net.Pipe()
		h := &gateHandler{started: make(chan p9p.Message, 4), release: map[p9p.Fid]chan struct{}{}}
		go p9p.ServeConn(ctx, s, h)
		ch := p9p.NewChannel(c, p9p.DefaultMSize)
		rd := func() *p9p.Fcall {
			fc := new(p9p.Fcall)
			if err := ch.ReadFcall(ctx, fc); err != nil {
				t.Fatal(err)
			}
			return fc
		}
		wr := func(tag p9p.Tag, m p9p.Message) {
			if err := ch.WriteFcall(ctx, &p9p.Fcall{Type: m.Type(), Tag: tag, Message: m}); err != nil {
				t.Fatal(err)
			}
		}
		wr(p9p.NOTAG, p9p.MessageTversion{MSize: 8192, Version: "9P2000"})
		rd()
		wr(7, p9p.MessageTstat{Fid: 0}) // request A on tag 7
		<-h.started
		wr(8, p9p.MessageTflush{Oldtag: 7})
		if r := rd(); r.Type != p9p.Rflush {
			t.Fatalf("want Rflush, got %v", r)
		}
		wr(7, p9p.MessageTstat{Fid: 1}) // request B reuses tag 7
		<-h.started
		close(h.gate(0)) // A completes late (its handler ignored the cancel)
		// Give A's completion a chance to reach the serve loop before B completes;
		// the reply on tag 7 must be B's whatever happens.
		got := make(chan *p9p.Fcall, 1)
		go func() { got <- rd() }()
		var r *p9p.Fcall
		select {
		case r = <-got:
		case <-time.After(20 * time.Millisecond):
			close(h.gate(1))
			r = <-got
		}
		if r.Tag != 7 {
			t.Fatalf("unexpected %v", r)
		}
		if rs, ok := r.Message.(p9p.MessageRstat); !ok || rs.Stat.Name != "B" {
			bad++
		}
		select {
		case <-h.gate(1):
		default:
			close(h.gate(1))
		}
		c.Close()
	}
	if bad > 0 {
		t.Fatalf("in %d of %d rounds the reply on the reused tag carried the flushed request's result", bad, rounds)
	}
}

// ---------------------------------------------------------------- D6 (C11)

type failWriteConn struct {
	net.Conn
	mu     sync.Mutex
	writes int
	failAt int
}

func (c *failWriteConn) Write(p []byte) (int, error) {
	c.mu.Lock()
	c.writes++
	n := c.writes
	c.mu.Unlock()
	if n >= c.failAt {
		return 0, errors.New("injected write failure")
	}
	return c.Conn.Write(p)
}

type instantHandler struct{ stops int32 }

func (h *instantHandler) Handle(ctx context.Context, msg p9p.Message) (p9p.Message, error) {
	return p9p.MessageRclunk{}, nil
}
func (h *instantHandler) Stop(err error) error { h.stops++; return err }

func TestD6_ServeConnHangsAfterWriteError(t *testing.T) {
	ctx := context.Background()
	c, s := net.Pipe()
	fs := &failWriteConn{Conn: s, failAt: 2} // Rversion goes through, first reply fails
	h := &instantHandler{}
	ret := make(chan error, 1)
	go func() { ret <- p9p.ServeConn(ctx, fs, h) }()
	ch := p9p.NewChannel(c, p9p.DefaultMSize)
	var fc p9p.Fcall
	ch.WriteFcall(ctx, &p9p.Fcall{Type: p9p.Tversion, Tag: p9p.NOTAG, Message: p9p.MessageTversion{MSize: 8192, Version: "9P2000"}})
	ch.ReadFcall(ctx, &fc)
	// two requests: the first reply hits the write error, the second completion
	// then finds nobody draining `responses`.
	for tag := p9p.Tag(1); tag <= 3; tag++ {
		ch.WriteFcall(ctx, &p9p.Fcall{Type: p9p.Tclunk, Tag: tag, Message: p9p.MessageTclunk{Fid: 1}})
	}
	select {
	case <-ret:
	case <-time.After(2 * time.Second):
		t.Fatalf("ServeConn did not return after the connection's write side failed (stops=%d)", h.stops)
	}
}

// ---------------------------------------------------------------- D8 (C10)

func TestD8_TreadLongerThanTinyMsize(t *testing.T) {
	for msize := 19; msize < 23; msize++ {
		c := &rconn{r: bytes.NewReader(nil)}
		ch := p9p.NewChannel(c, msize)
		err := ch.WriteFcall(context.Background(), &p9p.Fcall{Type: p9p.Tread, Tag: 1, Message: p9p.MessageTread{Fid: 1, Count: 100}})
		if c.w.Len() > msize {
			t.Errorf("msize %d: a %d-byte Tread frame was emitted (err=%v)", msize, c.w.Len(), err)
		}
	}
}

// ---------------------------------------------------------------- fs for D9/D10/D17

type tfs struct {
	failOpenDir bool
	log         []string
	mu          sync.Mutex
}
type tent struct {
	fs   *tfs
	name string
	dir  bool
}
type tfile struct{ e *tent }

func (f *tfs) note(s string) { f.mu.Lock(); f.log = append(f.log, s); f.mu.Unlock() }

func (f *tfs) RequireAuth(context.Context) bool { return false }
func (f *tfs) Auth(context.Context, string, string) (p9p.AuthFile, error) {
	return nil, errors.New("no auth")
}
func (f *tfs) Attach(context.Context, string, string, p9p.AuthFile) (p9p.Dirent, error) {
	return &tent{f, "/", true}, nil
}
func (e *tent) Qid() p9p.Qid {
	q := p9p.Qid{Path: uint64(len(e.name))}
	if e.dir {
		q.Type = p9p.QTDIR
	}
	return q
}
func (e *tent) OpenDir(context.Context) (p9p.ReadNext, error) {
	if e.fs.failOpenDir && e.name != "/" {
		return nil, errors.New("opendir failed")
	}
	return func(context.Context) ([]p9p.Dir, error) { return nil, nil }, nil
}
func (e *tent) Walk(ctx context.Context, names ...string) ([]p9p.Qid, p9p.Dirent, error) {
	if len(names) == 0 {
		return nil, &tent{e.fs, e.name, e.dir}, nil
	}
	n := &tent{e.fs, names[len(names)-1], false}
	qs := make([]p9p.Qid, len(names))
	qs[len(qs)-1] = n.Qid()
	return qs, n, nil
}
func (e *tent) Create(ctx context.Context, name string, perm uint32, mode p9p.Flag) (p9p.Dirent, p9p.File, error) {
	n := &tent{e.fs, name, perm&p9p.DMDIR != 0}
	return n, &tfile{n}, nil
}
func (e *tent) Open(context.Context, p9p.Flag) (p9p.File, error) { return &tfile{e}, nil }
func (e *tent) Remove(context.Context) error                     { e.fs.note("remove " + e.name); return nil }
func (e *tent) Clunk(context.Context) error                      { e.fs.note("clunk " + e.name); return nil }
func (e *tent) Stat(context.Context) (p9p.Dir, error)            { return p9p.Dir{Name: e.name}, nil }
func (e *tent) WStat(context.Context, p9p.Dir) error             { return nil }
func (f *tfile) Read(ctx context.Context, p []byte, off int64) (int, error) {
	f.e.fs.note("read " + f.e.name)
	return copy(p, f.e.name), nil
}
func (f *tfile) Write(context.Context, []byte, int64) (int, error) { return 0, nil }
func (f *tfile) IOUnit() int                                       { return 0 }

// ---------------------------------------------------------------- D9 (C08, C14)

func TestD9_AttachWithBoundAfidLeavesItLocked(t *testing.T) {
	ctx := context.Background()
	s := p9p.SFileSys(&tfs{})
	if _, err := s.Attach(ctx, 1, p9p.NOFID, "u", ""); err != nil {
		t.Fatal(err)
	}
	if _, err := s.Attach(ctx, 2, 1, "u", ""); err == nil {
		t.Fatal("attach with an ordinary fid as afid succeeded")
	}
	within(t, 2*time.Second, "Stat(1) after failed Attach(afid=1)", func() { s.Stat(ctx, 1) })
}

// ---------------------------------------------------------------- D10 (C13, C14)

func TestD10_CreateDirWhoseOpenDirFailsDeadlocks(t *testing.T) {
	ctx := context.Background()
	fs := &tfs{failOpenDir: true}
	s := p9p.SFileSys(fs)
	s.Attach(ctx, 1, p9p.NOFID, "u", "")
	within(t, 2*time.Second, "Create(dir) with failing OpenDir", func() {
		if _, _, err := s.Create(ctx, 1, "d", p9p.DMDIR|0755, p9p.OREAD); err == nil {
			t.Error("create succeeded")
		}
	})
}

// ---------------------------------------------------------------- D17 (C13)

func TestD17_InPlaceWalkOfOpenFidKeepsReleasedFile(t *testing.T) {
	ctx := context.Background()
	fs := &tfs{}
	s := p9p.SFileSys(fs)
	s.Attach(ctx, 1, p9p.NOFID, "u", "")
	s.Walk(ctx, 1, 2, "a")
	if _, _, err := s.Open(ctx, 2, p9p.OREAD); err != nil {
		t.Fatal(err)
	}
	_, err := s.Walk(ctx, 2, 2) // no-op, fine
	if err != nil {
		t.Fatal(err)
	}
	// ".."-free in-place walk from a file is refused (not a directory); use the root
	s.Walk(ctx, 1, 3)
	s.Open(ctx, 3, p9p.OREAD) // fid 3 = open root directory
	if _, err := s.Walk(ctx, 3, 3, "b"); err != nil {
		return // refusing to walk an open fid is fine
	}
	// fid 3 now names "b"; the root entry was clunked. Reading fid 3 must not
	// use the released root's directory reader, and fid 3 must not count as open.
	buf := make([]byte, 16)
	if _, err := s.Read(ctx, 3, buf, 0); err == nil {
		t.Fatalf("fid moved by an in-place walk still reads through the released entry's open file (log %v)", fs.log)
	}
}

// ---------------------------------------------------------------- D18 (C14)

type slowAttachFS struct {
	tfs
	entered chan struct{}
	release chan struct{}
}

func (f *slowAttachFS) Attach(context.Context, string, string, p9p.AuthFile) (p9p.Dirent, error) {
	close(f.entered)
	<-f.release
	return nil, errors.New("attach failed")
}

func TestD18_ClunkOfFidReservedByFailingAttachSucceeds(t *testing.T) {
	ctx := context.Background()
	fs := &slowAttachFS{entered: make(chan struct{}), release: make(chan struct{})}
	s := p9p.SFileSys(fs)
	aerr := make(chan error, 1)
	go func() { _, err := s.Attach(ctx, 5, p9p.NOFID, "u", ""); aerr <- err }()
	<-fs.entered
	cerr := make(chan error, 1)
	go func() { cerr <- s.Clunk(ctx, 5) }()
	time.Sleep(20 * time.Millisecond) // let the clunk reach the placeholder's lock
	close(fs.release)
	if err := <-aerr; err == nil {
		t.Fatal("attach should fail")
	}
	if err := <-cerr; err == nil {
		t.Fatal("Clunk(5) reported success although fid 5 was never bound in any sequential order")
	}
}

// ---------------------------------------------------------------- D11 (C20)

type spySession struct {
	p9p.Session
	mu    sync.Mutex
	walks [][]string
}

func (s *spySession) Walk(ctx context.Context, fid, newfid p9p.Fid, names ...string) ([]p9p.Qid, error) {
	s.mu.Lock()
	s.walks = append(s.walks, append([]string{}, names...))
	s.mu.Unlock()
	return s.Session.Walk(ctx, fid, newfid, names...)
}

func TestD11_CompletedWalkOfNormalisedNamesReportedIncomplete(t *testing.T) {
	ctx := context.Background()
	srv := p9p.SFileSys(&tfs{})
	cfs := p9p.CFileSys(&spySession{Session: srv})
	root, err := cfs.Attach(ctx, "u", "", nil)
	if err != nil {
		t.Fatal(err)
	}
	_, ent, err := root.Walk(ctx, "a", ".")
	if err != nil {
		t.Fatalf(`Walk("a", ".") was completed by the server but the client layer says: %v`, err)
	}
	if err := ent.Clunk(ctx); err != nil {
		t.Fatal(err)
	}
}

// ---------------------------------------------------------------- D12 (C18)

func TestD12_RamfsNegativeOffsetPanics(t *testing.T) {
	ctx := context.Background()
	s := p9p.SFileSys(ramfs.NewServer(ctx))
	s.Attach(ctx, 1, p9p.NOFID, "u", "")
	if _, _, err := s.Create(ctx, 1, "d12file", 0644, p9p.ORDWR); err != nil {
		t.Fatal(err)
	}
	s.Write(ctx, 1, []byte("hello"), 0)
	for _, off := range []int64{-1, -1 << 63} {
		func() {
			defer func() {
				if r := recover(); r != nil {
					t.Errorf("offset %d: panic: %v", off, r)
				}
			}()
			s.Read(ctx, 1, make([]byte, 4), off)
			s.Write(ctx, 1, []byte("xy"), off)
		}()
	}
	s.Remove(ctx, 1)
}

// ---------------------------------------------------------------- D14 (C18)

func TestD14_RamfsStaleHandleRemovesNewerFile(t *testing.T) {
	ctx := context.Background()
	s := p9p.SFileSys(ramfs.NewServer(ctx))
	s.Attach(ctx, 1, p9p.NOFID, "u", "")
	s.Walk(ctx, 1, 2)
	if _, _, err := s.Create(ctx, 2, "d14", 0644, p9p.ORDWR); err != nil { // fid 2 = old "d14"
		t.Fatal(err)
	}
	s.Walk(ctx, 1, 3, "d14") // fid 3 = second handle on old "d14"
	if err := s.Remove(ctx, 2); err != nil {
		t.Fatal(err)
	}
	s.Walk(ctx, 1, 4)
	if _, _, err := s.Create(ctx, 4, "d14", 0644, p9p.ORDWR); err != nil { // a NEW file "d14"
		t.Fatal(err)
	}
	s.Write(ctx, 4, []byte("new"), 0)
	s.Remove(ctx, 3) // stale handle on the OLD file: must not remove the new one
	if qids, err := s.Walk(ctx, 1, 5, "d14"); err != nil || len(qids) != 1 {
		t.Fatalf("removing through a stale handle deleted the newer file of the same name (qids=%v err=%v)", qids, err)
	}
	s.Remove(ctx, 5)
	s.Clunk(ctx, 4)
}

// ---------------------------------------------------------------- D7 (C11)

type gatedAttachFS struct {
	tfs
	entered chan struct{}
	release chan struct{}
}

func (f *gatedAttachFS) Attach(ctx context.Context, _ string, _ string, _ p9p.AuthFile) (p9p.Dirent, error) {
	close(f.entered)
	<-ctx.Done() // cancelled by the shutdown ...
	<-f.release  // ... and finishing its work a moment later
	return &tent{&f.tfs, "/", true}, nil
}

func TestD7_StopRunsWhileHandlerStillBindsAFid(t *testing.T) {
	ctx := context.Background()
	c, s := net.Pipe()
	fs := &gatedAttachFS{entered: make(chan struct{}), release: make(chan struct{})}
	ret := make(chan error, 1)
	go func() { ret <- p9p.ServeConn(ctx, s, p9p.SSession(p9p.SFileSys(fs))) }()
	ch := p9p.NewChannel(c, p9p.DefaultMSize)
	var fc p9p.Fcall
	ch.WriteFcall(ctx, &p9p.Fcall{Type: p9p.Tversion, Tag: p9p.NOTAG, Message: p9p.MessageTversion{MSize: 8192, Version: "9P2000"}})
	ch.ReadFcall(ctx, &fc)
	ch.WriteFcall(ctx, &p9p.Fcall{Type: p9p.Tattach, Tag: 1, Message: p9p.MessageTattach{Fid: 1, Afid: p9p.NOFID}})
	<-fs.entered
	c.Close() // peer disconnects while the attach is in flight
	go func() { time.Sleep(50 * time.Millisecond); close(fs.release) }()
	select {
	case <-ret:
	case <-time.After(2 * time.Second):
		t.Fatal("ServeConn did not return")
	}
	time.Sleep(100 * time.Millisecond) // the handler has certainly returned by now
	fs.mu.Lock()
	defer fs.mu.Unlock()
	if len(fs.log) != 1 || fs.log[0] != "clunk /" {
		t.Fatalf("the entry bound by the in-flight attach was not released by Stop: release log %v", fs.log)
	}
}

// ---------------------------------------------------------------- D19 (C14)

// A Remove that is still waiting for the fid's lock (held by a slow Stat) has already
// made the fid unknown to later requests, although the removal has not happened: a Read
// on the fid fails with "unknown fid" and a walk issued after that still finds the file.
// No sequential order of Stat, Remove, Read, Walk explains these results.

type slowStatFS struct {
	tfs
	mu       sync.Mutex
	removed  bool
	statIn   chan struct{}
	statGo   chan struct{}
	removeIn chan struct{}
}
type slowEnt struct {
	fs   *slowStatFS
	name string
	dir  bool
}

func (f *slowStatFS) Attach(context.Context, string, string, p9p.AuthFile) (p9p.Dirent, error) {
	return &slowEnt{f, "/", true}, nil
}
func (e *slowEnt) Qid() p9p.Qid {
	if e.dir {
		return p9p.Qid{Type: p9p.QTDIR, Path: 1}
	}
	return p9p.Qid{Path: 2}
}
func (e *slowEnt) OpenDir(context.Context) (p9p.ReadNext, error) { return nil, errors.New("no") }
func (e *slowEnt) Walk(ctx context.Context, names ...string) ([]p9p.Qid, p9p.Dirent, error) {
	if len(names) == 0 {
		return nil, &slowEnt{e.fs, e.name, e.dir}, nil
	}
	e.fs.mu.Lock()
	gone := e.fs.removed
	e.fs.mu.Unlock()
	if names[0] != "a" || gone {
		return nil, nil, p9p.ErrNotfound
	}
	n := &slowEnt{e.fs, "a", false}
	return []p9p.Qid{n.Qid()}, n, nil
}
func (e *slowEnt) Create(context.Context, string, uint32, p9p.Flag) (p9p.Dirent, p9p.File, error) {
	return nil, nil, errors.New("no")
}
func (e *slowEnt) Open(context.Context, p9p.Flag) (p9p.File, error) { return &tfile{&tent{&e.fs.tfs, e.name, false}}, nil }
func (e *slowEnt) Remove(context.Context) error {
	e.fs.mu.Lock()
	e.fs.removed = true
	e.fs.mu.Unlock()
	return nil
}
func (e *slowEnt) Clunk(context.Context) error { return nil }
func (e *slowEnt) Stat(context.Context) (p9p.Dir, error) {
	if !e.dir {
		close(e.fs.statIn)
		<-e.fs.statGo
	}
	return p9p.Dir{Name: e.name}, nil
}
func (e *slowEnt) WStat(context.Context, p9p.Dir) error { return nil }

func TestD19_RemoveHidesFidBeforeItTakesEffect(t *testing.T) {
	ctx := context.Background()
	fs := &slowStatFS{statIn: make(chan struct{}), statGo: make(chan struct{})}
	s := p9p.SFileSys(fs)
	s.Attach(ctx, 0, p9p.NOFID, "u", "")
	s.Walk(ctx, 0, 9, "a")
	s.Open(ctx, 9, p9p.ORDWR)
	statDone := make(chan struct{})
	go func() { s.Stat(ctx, 9); close(statDone) }() // holds fid 9's lock inside the FS
	<-fs.statIn
	remDone := make(chan error, 1)
	go func() { remDone <- s.Remove(ctx, 9) }()
	// wait until the Remove has reached fid 9's lock
	for i := 0; ; i++ {
		buf := make([]byte, 1<<16)
		st := string(buf[:runtime.Stack(buf, true)])
		if bytes.Contains([]byte(st), []byte("delRef")) && bytes.Contains([]byte(st), []byte("sync.Mutex.Lock")) {
			break
		}
		if i > 2000 {
			t.Fatal("remove never reached the lock")
		}
		time.Sleep(time.Millisecond)
	}
	// Read(9) is issued and completes while Stat and Remove are both still in progress
	readDone := make(chan error, 1)
	go func() { _, err := s.Read(ctx, 9, make([]byte, 4), 0); readDone <- err }()
	var rerr error
	select {
	case rerr = <-readDone:
	case <-time.After(100 * time.Millisecond):
		// the read waits for the fid (as it should if the fid is still bound): fine
		close(fs.statGo)
		<-statDone
		<-remDone
		<-readDone
		return
	}
	// the read returned although Stat (and therefore Remove) have not finished
	qids, werr := s.Walk(ctx, 0, 3, "a") // issued after the read returned
	close(fs.statGo)
	<-statDone
	<-remDone
	if rerr != nil && werr == nil && len(qids) == 1 {
		t.Fatalf("Read(9) failed with %q (as if the remove had happened) but a later Walk still found the file: not explainable by any sequential order", rerr)
	}
}
